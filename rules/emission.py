"""Emission/size agreement (C01 clause 4, C17 clause 1): the byte count the .slp writer emits inside the raw element and
the arithmetic of PayloadSizes::raw_size are both normalised to polynomials over the same atoms and compared, per
version class and per combination of the boolean atoms (end present, doubled end, gecko codes, follower present).

Atoms
  N_TABLE            number of payload-table entries
  sz[X]              declared payload size of event X (the table entry)
  size(S)            S::size(version) of a generated struct (== bytes S::write emits, by rule L1)
  len(start) ...     lengths of the retained raw blocks
  FRAMES             number of frame rows
  PORTS              summation over the occupied ports (a formal multiplier)
  VC(leader|follower) number of rows in which that character is valid (= len - unset_bits(validity) = #frames with the bit set)
  ITEMS              number of item rows (= sum over frames of offset[i+1]-offset[i], assumption recorded)
  GECKO_BLOCKS       number of 512-byte splitter blocks (assumption recorded)
  END, DOUBLE, GECKO, SOME(follower)   0/1 indicators
Anything outside the recognised fragment raises Unsupported (fail closed)."""
import linear
import layout as L
import tir
from layout import Unsupported
from tir import strip, declared, callee

INDICATORS = ("END", "DOUBLE", "GECKO", "SOME(follower)")


class Poly(dict):
    """monomial (sorted tuple of atom names) -> integer coefficient"""

    @staticmethod
    def const(c):
        return Poly({(): c}) if c else Poly()

    @staticmethod
    def atom(a):
        return Poly({(a,): 1})

    def __add__(self, o):
        r = Poly(self)
        for k, v in o.items():
            r[k] = r.get(k, 0) + v
            if r[k] == 0:
                del r[k]
        return r

    def __sub__(self, o):
        return self + (o * Poly.const(-1))

    def __mul__(self, o):
        r = Poly()
        for k1, v1 in self.items():
            for k2, v2 in o.items():
                # indicators are idempotent
                k = list(k1)
                for a in k2:
                    if (a in INDICATORS or a.startswith("VALID(")) and a in k:
                        continue
                    k.append(a)
                k = tuple(sorted(k))
                r[k] = r.get(k, 0) + v1 * v2
                if r[k] == 0:
                    del r[k]
        return r

    def subst(self, mapping):
        """replace atoms by polynomials"""
        out = Poly()
        for k, v in self.items():
            term = Poly.const(v)
            for a in k:
                term = term * (mapping[a] if a in mapping else Poly.atom(a))
            out = out + term
        return out

    def show(self):
        if not self:
            return "0"
        parts = []
        for k, v in sorted(self.items()):
            parts.append(("%d" % v if not k else ("" if v == 1 else "%d*" % v) + "*".join(k)))
        return " + ".join(parts)


def event_of(e):
    """`Event::X as u8` (possibly behind & and parentheses) -> 'X'"""
    e = strip(e)
    if e.get("k") == "Cast":
        e = strip(e["e"])
    if e.get("k") == "Path" and (e.get("path") or "").startswith("io::slippi::de::Event::"):
        return e["path"].split("::")[-1]
    return None


def const_usize(F, path):
    """value of a `const X: usize = k * size_of::<T>()`-style item"""
    b = F.const_body(path)
    if b is None:
        raise Unsupported({}, "const %s not found" % path)

    def ev(e):
        e = strip(e)
        v = tir.lit_int(e)
        if v is not None and e.get("k") in ("Lit",):
            return v
        if e.get("k") == "Call" and (declared(e) or "").endswith("mem::size_of"):
            return L.WIDTH[(e.get("gargs") or [None])[0]]
        if e.get("k") == "Binary" and e["op"] in ("Mul", "Add"):
            a, b2 = ev(e["l"]), ev(e["r"])
            return a * b2 if e["op"] == "Mul" else a + b2
        raise Unsupported(e, "constant outside the fragment")
    return ev(b["tir"]["value"])


# ------------------------------------------------------------------------------------------------ payload table

def table_entries(F):
    """[(event, gate formula or None, extra guard or None, size polynomial)] in push order, from ser::payload_sizes"""
    fn = "io::slippi::ser::payload_sizes"
    b = F.body(fn)
    if b is None:
        raise Unsupported({}, "payload_sizes not found")
    consts = {}
    for n in tir.walk(b["tir"]["value"]):
        pass
    for c in F.items["consts"]:
        if c["path"].startswith(fn + "::"):
            consts[c["path"].split("::")[-1]] = const_usize(F, c["path"])

    def size_poly(e):
        e = strip(e)
        k = e.get("k")
        if k == "Binary" and e["op"] == "Add":
            return size_poly(e["l"]) + size_poly(e["r"])
        if k == "Path" and e.get("res") == "def" and (e.get("path") or "").split("::")[-1] in consts:
            return Poly.const(consts[e["path"].split("::")[-1]])
        v = tir.lit_int(e)
        if v is not None and k == "Lit":
            return Poly.const(v)
        if k == "Call" and (declared(e) or "").endswith("::size") and "frame::immutable" in (declared(e) or ""):
            return Poly.atom("size(%s)" % L.struct_of_path(declared(e)))
        if k == "Call" and (declared(e) or "") == "game::End::size":
            return Poly.atom("End::size")
        if k == "MethodCall" and e["method"] == "len":
            return Poly.atom("len(%s)" % tir.place(e["recv"]))
        if k == "MethodCall" and e["method"] == "map_or" and tir.place(e["recv"]) == "game.end":
            # game.end.as_ref().map_or(End::size(ver), |e| e.bytes.0.len())
            cl = strip(e["args"][1])
            inner = size_poly(cl["body"]) if cl.get("k") == "Closure" else None
            return Poly.atom("END") * inner + (Poly.const(1) - Poly.atom("END")) * size_poly(e["args"][0])
        if k == "Match" and tir.place(e["scrut"]) == "game.end" and len(e["arms"]) == 2:
            # match &game.end { Some(e) => e.bytes.0.len(), None => End::size(ver) }
            some = none = None
            for a in e["arms"]:
                p = a["pat"]
                while p.get("k") == "Ref":
                    p = p["pat"]
                if p.get("k") == "TupleStruct" and (p.get("path") or "").endswith("Some") and not a.get("guard"):
                    some = a["body"]
                elif not a.get("guard"):
                    none = a["body"]
            if some is not None and none is not None:
                return Poly.atom("END") * size_poly(some) + (Poly.const(1) - Poly.atom("END")) * size_poly(none)
        if k == "Block" and not e.get("stmts") and e.get("tail") is not None:
            return size_poly(e["tail"])
        if k == "Cast":
            # `codes.actual_size as u16 as usize`
            p = tir.place(e)
            return Poly.atom("len(%s)" % (tir.place(strip(e["e"])) or tir.pretty(e)[:40]))
        raise Unsupported(e, "table size outside the fragment: " + tir.pretty(e)[:80])

    def lf(n, st):
        n = L.strip_try(n)
        k = n.get("k")
        if k == "Let":
            return []
        if k == "MethodCall" and n["method"] == "push" and (declared(n) or "") == "io::slippi::ser::PayloadSizes::push":
            ev = strip(n["args"][0])
            name = ev["path"].split("::")[-1] if ev.get("k") == "Path" else None
            return [L.leaf(op="entry", event=name, size=size_poly(n["args"][1]), sp=tir.sp(n))]
        if k == "Path" and n.get("res") == "local":
            return []
        return None

    items = L.seq(b["tir"]["value"], lf, {"flags_ok": True})
    return items


# ------------------------------------------------------------------------------------------------ writer

class Writer:
    """byte-count polynomial of everything the writer emits inside the raw element, with a per-event breakdown"""

    def __init__(self, F, v, fixed_sizes=None):
        self.F = F
        self.v = v
        self.fixed_sizes = fixed_sizes or {}
        self.events = []      # dicts: event, mult, header widths, payload poly, site
        self.order = []       # emission order of event codes with their context
        self.depth = 0
        self.alias = [{}]     # stack of local-name -> caller place maps
        self.cur = None
        self.who = [None]     # which character a Data writer is running for
        self.bodies = []      # bodies of the functions being walked (innermost last), for following lets

    def resolve(self, p):
        """rewrite a callee-local place through the alias stack to a caller-level place"""
        if p is None:
            return None
        for env in reversed(self.alias):
            head, _, rest = p.partition(".")
            if head in env and env[head] is not None:
                p = env[head] + ("." + rest if rest else "")
        return p

    def note_write(self, n, nbytes, mult, kind):
        c = self.cur
        if c is None:
            return
        if c["mult"] == mult and c["depth"] <= self.depth:
            if kind:
                c["header"].append(kind)
            c["bytes"] = c["bytes"] + nbytes
        else:
            c["irregular"] = True

    def width_call(self, n):
        d = declared(n) or ""
        if d.startswith("byteorder::WriteBytesExt::write_"):
            return L.WIDTH[n["method"][6:]]
        return None

    def run(self, n, mult, w="w"):
        """returns the polynomial of bytes written by evaluating n once, under multiplicity context `mult` (a Poly)"""
        F = self.F
        if not isinstance(n, dict):
            return Poly()
        n = L.strip_try(n)
        k = n.get("k")
        if k == "Block":
            tot = Poly()
            for s in n.get("stmts", []):
                tot = tot + self.run(s, mult, w)
            if n.get("tail"):
                tot = tot + self.run(n["tail"], mult, w)
            return tot
        if k == "Let":
            return self.run(n.get("init"), mult, w) if n.get("init") is not None else Poly()
        if k == "Expr":
            return self.run(n["e"], mult, w)
        if k == "If":
            c = strip(n["cond"])
            f = L.vcond(c)
            if f is not None:
                return self.run(n["then"], mult, w) if L.feval(f, self.v) else (self.run(n["else"], mult, w) if n.get("else") else Poly())
            ind = self.indicator(c)
            if ind is None:
                raise Unsupported(n, "writer branches on a condition outside the fragment: " + tir.pretty(c)[:80])
            if c.get("k") == "LetCond" and c["pat"].get("pats") and c["pat"]["pats"][0].get("k") == "Bind":
                self.alias[-1] = dict(self.alias[-1])
                self.alias[-1][c["pat"]["pats"][0]["name"]] = self.resolve(tir.place(c["init"]))
            a = self.run(n["then"], mult * ind, w)
            b = self.run(n["else"], mult * (Poly.const(1) - ind), w) if n.get("else") else Poly()
            return ind * a + (Poly.const(1) - ind) * b
        if k == "Match":
            f = L.vcond(n["scrut"])
            if f is not None:
                for a in n["arms"]:
                    if a["pat"].get("k") == "Lit" and bool(a["pat"]["e"].get("v")) == L.feval(f, self.v):
                        return self.run(a["body"], mult, w)
                    if a["pat"].get("k") in ("Wild", "Bind"):
                        return self.run(a["body"], mult, w)
            # `match port.follower { true => 1, _ => 0 }` inside an argument: no writes
            def may_write(x):
                if x.get("k") == "MethodCall" and (self.width_call(x) or x["method"] in ("write_all", "write", "write_fmt")):
                    return True
                c_ = callee(x) or ""
                return x.get("k") in ("Call", "MethodCall") and self.F.body(c_) is not None
            if not any(may_write(x) for x in tir.walk(n) if x.get("k") in ("MethodCall", "Call")):
                return Poly()
            raise Unsupported(n, "writer matches on a value outside the fragment")
        if k == "For":
            count = self.loop_count(n)
            body = self.run(n["body"], mult * count, w)
            return count * body
        if k == "Loop":
            count = self.while_count(n)
            inner = L.strip_try(n["body"])
            if inner.get("k") == "Block":
                inner = L.strip_try(inner.get("tail") or {})
            if inner.get("k") != "If":
                raise Unsupported(n, "loop that is not a `while`")
            body = self.run(inner["then"], mult * count, w)
            return count * body
        if k in ("Break", "Continue", "Path", "Lit", "Tup"):
            return Poly()
        if k == "AssignOp" or k == "Assign":
            return Poly()
        if k == "Ret":
            raise Unsupported(n, "early return in a writer")
        if k == "MethodCall":
            wd = self.width_call(n)
            if wd is not None:
                ev = event_of(n["args"][0]) if n["method"] == "write_u8" else None
                c = self.cur
                inside_fixed = c is not None and c.get("fixed") is not None and c["mult"] == mult and not c.get("irregular") and c["bytes"].get((), 0) < c["fixed"]
                if ev and not inside_fixed:
                    self.order.append((ev, mult, tir.sp(n)))
                    self.cur = {"event": ev, "mult": mult, "header": [], "site": tir.sp(n), "bytes": Poly(), "depth": self.depth, "fixed": self.fixed_sizes.get(ev)}
                    self.events.append(self.cur)
                else:
                    self.note_write(n, Poly.const(wd), mult, n["method"][6:])
                return Poly.const(wd)
            if n["method"] == "write_all" and (declared(n) or "").endswith("Write::write_all"):
                a = strip(n["args"][0])
                p = self.bytes_len(a)
                self.note_write(n, p, mult, None)
                return p
            d = callee(n) or ""
            if d.startswith("frame::immutable::slippi::") or d.startswith("io::slippi::ser::") or d.startswith("io::ubjson::ser::"):
                return self.call(n, d, mult)
            if n["method"] in ("map_or", "map") and (declared(n) or "").startswith("std::option::Option"):
                # OPT.map_or(Ok(()), |f| { .. writes .. })
                cl = strip(n["args"][-1])
                if cl.get("k") == "Closure":
                    rp = self.resolve(tir.place(n["recv"]))
                    ind = self.indicator_place(rp)
                    if ind is None:
                        raise Unsupported(n, "writer maps over an Option outside the fragment: " + str(tir.place(n["recv"])))
                    self.alias.append({cl["params"][0].get("name"): rp} if cl["params"] and cl["params"][0].get("k") == "Bind" else {})
                    body = self.run(cl["body"], mult * ind, w)
                    self.alias.pop()
                    return ind * body
            if not any(self.width_call(x) or ((callee(x) or "").startswith("frame::immutable::slippi::")) for x in tir.walk(n) if x.get("k") == "MethodCall" and x is not n):
                return Poly()
            raise Unsupported(n, "method call with nested writes outside the fragment: " + tir.pretty(n)[:80])
        if k == "Call":
            d = callee(n) or ""
            if d.startswith("io::slippi::ser::") or d.startswith("io::ubjson::ser::") or d.startswith("frame::immutable::slippi::"):
                return self.call(n, d, mult)
            if (declared(n) or "").endswith("::Ok"):
                return sum_polys(self.run(a, mult, w) for a in n["args"])
            if d == "io::slippi::assert_max_version" or d.startswith("core::panicking") or d.endswith("assert_failed"):
                return Poly()
            if not any(self.width_call(x) for x in tir.walk(n) if x.get("k") == "MethodCall"):
                return Poly()
            raise Unsupported(n, "call with nested writes outside the fragment: " + tir.pretty(n)[:80])
        if k == "Closure":
            return Poly()
        tot = Poly()
        for c in tir.children(n):
            tot = tot + self.run(c, mult, w)
        return tot

    def call(self, n, d, mult):
        if d.endswith("::write") and "frame::immutable::slippi::<impl frame::immutable::" in d and L.struct_of_path(d) in ("Pre", "Post", "Start", "End", "Item"):
            p = Poly.atom("size(%s)" % L.struct_of_path(d))
            self.note_write(n, p, mult, None)
            return p
        if d in ("io::slippi::ser::payload_sizes", "io::slippi::ser::PayloadSizes::raw_size"):
            return Poly()
        if d == "io::ubjson::ser::write_map":
            return Poly.atom("len(metadata)")
        b = self.F.body(d)
        if b is None:
            raise Unsupported(n, "callee %s has no body" % d)
        self.depth += 1
        if self.depth > 12:
            raise Unsupported(n, "writer call depth")
        params = [p.get("name") for p in b["tir"]["params"]]
        args = tir.call_args(n)
        env = {}
        for pn, a in zip(params, args):
            env[pn] = self.resolve(tir.place(a))
        self.alias.append(env)
        self.bodies.append(b["tir"]["value"])
        r = self.run(b["tir"]["value"], mult)
        self.bodies.pop()
        self.alias.pop()
        self.depth -= 1
        if self.cur is not None and self.cur["depth"] > self.depth:
            self.cur = None
        return r

    def bytes_len(self, a):
        a = strip(a)
        if a.get("k") == "Array":
            return Poly.const(len(a["elems"]))
        if a.get("k") == "Path" and a.get("res") == "def":
            m = __import__("re").match(r"\[u8; (\d+)\]", a.get("ty") or "")
            if m:
                return Poly.const(int(m.group(1)))
        if a.get("k") == "Index":
            ix = strip(a["index"])
            if ix.get("k") == "Struct" and (ix.get("path") or "").endswith("ops::Range"):
                f = {x["name"]: x["e"] for x in ix["fields"]}
                s, e = strip(f["start"]), strip(f["end"])
                if e.get("k") == "Binary" and e["op"] == "Add" and tir.place(e["l"]) == tir.place(s) and tir.lit_int(e["r"]) is not None:
                    return Poly.const(tir.lit_int(e["r"]))
                # end - start as linear forms, following immutable lets of the enclosing function (`let end = pos + 512`)
                import linear
                env = tir.LetEnv(self.bodies[-1]) if self.bodies else None
                try:
                    d = linear.add(linear.lin(env.resolve(e) if env else e), linear.lin(env.resolve(s) if env else s), -1)
                    if not [k for k, v in d.items() if k and v] and d.get("", 0) >= 0:
                        return Poly.const(d.get("", 0))
                except linear.NonLinear:
                    pass
        p = self.resolve(tir.place(a))
        if p:
            return Poly.atom("len(%s)" % p)
        raise Unsupported(a, "write_all of a buffer whose length is outside the fragment: " + tir.pretty(a)[:60])

    def indicator_place(self, p):
        if p is None:
            return None
        if p.endswith("game.end") or p == "end":
            return Poly.atom("END")
        if p.endswith("gecko_codes"):
            return Poly.atom("GECKO")
        if p.endswith("metadata"):
            return Poly.atom("META")
        if p.endswith(".follower"):
            return Poly.atom("SOME(follower)")
        return None

    def indicator(self, c):
        c = strip(c)
        if c.get("k") == "LetCond" and (c["pat"].get("path") or "").endswith("Some"):
            return self.indicator_place(self.resolve(tir.place(c["init"])))
        off = tir.opt_field_flag(c)
        if off and (off[0] or "").endswith("quirks") and off[1] == "double_game_end":
            return Poly.atom("DOUBLE")
        if c.get("k") == "MethodCall" and c["method"] == "map_or":
            r = tir.place(c["recv"]) or ""
            cl = strip(c["args"][1])
            if r.endswith(".validity") and strip(c["args"][0]).get("lit") == "bool" and cl.get("k") == "Closure":
                b = strip(cl["body"])
                dflt = strip(c["args"][0]).get("v")
                neg = False
                if b.get("k") == "Unary" and b.get("op") == "Not":
                    b, neg = strip(b["e"]), True
                if b.get("k") == "MethodCall" and b["method"] == "get_bit":
                    rr = self.resolve(r) or r
                    who = rr.split(".")[-2] if rr.count(".") >= 1 else rr
                    if dflt is True and not neg:
                        return Poly.atom("VALID(%s)" % who)            # no bitmap, or the bit is set
                    if dflt is False and neg:
                        return Poly.const(1) - Poly.atom("VALID(%s)" % who)    # a bitmap whose bit is clear
        return None

    def loop_count(self, n):
        it = tir.pretty(n["iter"])
        # the collection iterated, looking through borrows and element-preserving adaptors (one iteration per element)
        src = strip(n["iter"])
        adaptors = []
        while src.get("k") == "MethodCall" and src["method"] in ("iter", "into_iter", "iter_mut", "enumerate", "copied", "cloned", "values", "by_ref") and not src.get("args"):
            adaptors.append(src["method"])
            src = strip(src["recv"])
        pl = tir.place(src) or ""
        if pl == "self.id" and "values" in adaptors:
            return Poly.atom("FRAMES")
        if pl == "self.ports":
            return Poly.atom("PORTS")
        if pl.endswith(".sizes") and "PayloadSizes" in (strip(src.get("base") or {}).get("ty") or ""):
            return Poly.atom("N_TABLE")
        i = strip(n["iter"])
        if i.get("k") == "Struct" and (i.get("path") or "").endswith("ops::Range"):
            # offset[i] .. offset[i + 1] of one offsets column (casts and let-bound bounds looked through)
            env = tir.LetEnv(self.bodies[-1]) if self.bodies else None
            f = {x["name"]: x["e"] for x in i["fields"]}

            def off_index(e):
                e = env.resolve(e) if env else strip(e)
                while e.get("k") == "Cast":
                    e = strip(e["e"])
                    e = env.resolve(e) if env else e
                if e.get("k") == "Index":
                    base = env.resolve(e["base"], peel=True) if env else strip(e["base"])
                    return tir.place(strip(e["base"])) or tir.pretty(base)[:60], e["index"]
                return None, None
            b0, i0 = off_index(f.get("start") or {})
            b1, i1 = off_index(f.get("end") or {})
            if b0 is not None and b0 == b1:
                try:
                    d = linear.add(linear.lin(env.resolve(i1) if env else i1), linear.lin(env.resolve(i0) if env else i0), -1)
                    if not [k_ for k_, v_ in d.items() if k_ and v_] and d.get("", 0) == 1:
                        return Poly.atom("ITEMS_PER_FRAME")
                except linear.NonLinear:
                    pass
        if src.get("k") == "Struct" and (src.get("path") or "").endswith("ops::Range") and tir.lit_int({x["name"]: x["e"] for x in src["fields"]}.get("start") or {}) == 0:
            # 0..n with n a small selection on the double-Game-End quirk: `if double { 2 } else { 1 }` in any spelling
            end = {x["name"]: x["e"] for x in src["fields"]}.get("end")
            sel = self.flag_select(end)
            if sel is not None:
                return sel
        if src.get("k") == "MethodCall" and src["method"] == "step_by" and tir.lit_int(src["args"][0]) == 512:
            rg = strip(src["recv"])
            if rg.get("k") == "Struct" and (rg.get("path") or "").endswith("ops::Range"):
                f = {x["name"]: x["e"] for x in rg["fields"]}
                if tir.lit_int(f.get("start") or {}) == 0 and "actual_size" in tir.pretty(f.get("end") or {}):
                    return Poly.atom("GECKO_BLOCKS")      # 0, 512, .. below actual_size: one iteration per 512-byte block
        raise Unsupported(n, "writer loop over an iterator outside the fragment: " + it[:80])

    def flag_select(self, e):
        """DOUBLE*a + (1-DOUBLE)*b for an expression selecting between two integer literals on game.quirks' double_game_end"""
        env = tir.LetEnv(self.bodies[-1]) if self.bodies else None
        e = env.resolve(e) if env else strip(e)
        bb = tir.bool_branch(e) if e.get("k") in ("If", "Match") else None
        if bb is not None and bb[2] is not None:
            off = tir.opt_field_flag(env.resolve(bb[0]) if env else bb[0])
            a, b = tir.lit_int(L.strip_try(bb[1])), tir.lit_int(L.strip_try(bb[2]))
            if off and (off[0] or "").endswith("quirks") and off[1] == "double_game_end" and a is not None and b is not None:
                return Poly.atom("DOUBLE") * Poly.const(a) + (Poly.const(1) - Poly.atom("DOUBLE")) * Poly.const(b)
        if e.get("k") == "Match" and (tir.place(e["scrut"]) or "").endswith("quirks") and len(e["arms"]) == 2:
            # match game.quirks { Some(q) if q.double_game_end => a, _ => b }
            a0, a1 = e["arms"]
            p = a0["pat"]
            g = strip(a0.get("guard") or {})
            if (p.get("k") == "TupleStruct" and (p.get("path") or "").endswith("Some") and p["pats"][0].get("k") == "Bind" and g.get("k") == "Field" and g["name"] == "double_game_end"
                    and strip(g["base"]).get("id") == p["pats"][0]["id"] and a1["pat"].get("k") == "Wild" and not a1.get("guard")):
                a, b = tir.lit_int(L.strip_try(a0["body"])), tir.lit_int(L.strip_try(a1["body"]))
                if a is not None and b is not None:
                    return Poly.atom("DOUBLE") * Poly.const(a) + (Poly.const(1) - Poly.atom("DOUBLE")) * Poly.const(b)
        return None

    def while_count(self, n):
        if stepping_loop(n, self.bodies[-1] if self.bodies else None, 512) is not None:
            return Poly.atom("GECKO_BLOCKS")
        raise Unsupported(n, "writer while-loop outside the fragment")


def stepping_loop(loop, fn_body, step):
    """`while pos < LIMIT { .. pos advances by step exactly once .. }`: returns (pos binding id, the advancing node) or None.
    The advance is `pos += step` or `pos = e` with e equal to pos + step (through immutable lets)."""
    import linear
    inner = L.strip_try(loop["body"])
    if inner.get("k") == "Block":
        inner = L.strip_try(inner.get("tail") or {})
    if inner.get("k") != "If" or inner["cond"].get("k") == "LetCond":
        return None
    c = strip(inner["cond"])
    if not (c.get("k") == "Binary" and c.get("op") in ("Lt", "Gt")):
        return None
    pv = strip(c["l"] if c["op"] == "Lt" else c["r"])
    if pv.get("k") != "Path" or pv.get("res") != "local":
        return None
    pid, pname = pv.get("id"), pv.get("name")
    env = tir.LetEnv(fn_body) if fn_body is not None else tir.LetEnv(loop)
    adv = []
    for x in tir.walk(inner["then"]):
        if x.get("k") == "AssignOp" and x.get("op") in ("Add", "AddAssign") and strip(x["l"]).get("id") == pid:
            adv.append(x if tir.lit_int(x["r"]) == step else None)
        elif x.get("k") == "AssignOp" and strip(x["l"]).get("id") == pid:
            adv.append(None)
        elif x.get("k") == "Assign" and strip(x["l"]).get("id") == pid:
            try:
                f = linear.lin(env.resolve(x["r"]))
                adv.append(x if {k: v for k, v in f.items() if v} == {pname: 1, "": step} else None)
            except linear.NonLinear:
                adv.append(None)
    if len(adv) != 1 or adv[0] is None:
        return None
    return pid, adv[0]


def a_plus(ind, a, b):
    return a + b


def sum_polys(it):
    t = Poly()
    for p in it:
        t = t + p
    return t


# canonical rewriting of multiplicity monomials
def canon(p):
    out = Poly()
    for k, v in p.items():
        atoms = list(k)
        # FRAMES * VALID(x) -> VC(x)   (rows in which the bit is set)
        changed = True
        while changed:
            changed = False
            for a in list(atoms):
                if a.startswith("VALID(") and "FRAMES" in atoms:
                    atoms.remove(a)
                    atoms.remove("FRAMES")
                    atoms.append("VC(" + a[6:])
                    changed = True
                    break
        if "ITEMS_PER_FRAME" in atoms and "FRAMES" in atoms:
            atoms.remove("ITEMS_PER_FRAME")
            atoms.remove("FRAMES")
            atoms.append("ITEMS")
        k2 = tuple(sorted(atoms))
        out[k2] = out.get(k2, 0) + v
        if out[k2] == 0:
            del out[k2]
    return out


# ------------------------------------------------------------------------------------------------ raw_size

class RawSize:
    def __init__(self, F):
        self.F = F

    def counts(self):
        """frame_counts' fields as polynomials"""
        b = self.F.body("io::slippi::ser::frame_counts")
        fields, node = L.ctor_fields(b["tir"]["value"], None)
        out = {}
        lenname = None
        for n in tir.walk(b["tir"]["value"]):
            if n.get("k") == "Let" and tir.pretty(n["init"]) == "frames.len()":
                lenname = n["pat"]["name"]
        for name, e in fields:
            out[name] = self.count_expr(e, lenname)
        return out

    def count_expr(self, e, lenname):
        e = strip(e)
        while e.get("k") == "MethodCall" and e["method"] in ("unwrap", "try_into") or e.get("k") == "Cast":
            e = strip(e["recv"] if e.get("k") == "MethodCall" else e["e"])
        k = e.get("k")
        if k == "Path" and e.get("name") == lenname:
            return Poly.atom("FRAMES")
        if k == "MethodCall" and e["method"] == "sum":
            m = strip(e["recv"])
            if m.get("k") == "MethodCall" and m["method"] == "map" and tir.pretty(m["recv"]) == "frames.ports.iter()":
                cl = strip(m["args"][0])
                return Poly.atom("PORTS") * self.count_expr(cl["body"], lenname)
        if k == "Block" and not e.get("stmts"):
            return self.count_expr(e["tail"], lenname)
        if k == "Binary" and e["op"] in ("Add", "Sub"):
            l, r = strip(e["l"]), strip(e["r"])
            if e["op"] == "Sub" and l.get("k") == "Path" and l.get("name") == lenname:
                # len - X.validity.as_ref().map_or(0, |v| v.unset_bits())
                if r.get("k") == "MethodCall" and r["method"] == "map_or" and tir.lit_int(r["args"][0]) == 0 and "unset_bits" in tir.pretty(r["args"][1]):
                    pl = tir.place(r["recv"]) or ""
                    who = pl.split(".")[-2] if pl.endswith(".validity") else "?"
                    who = {"f": "follower"}.get(who, who)
                    return Poly.atom("VC(%s)" % who)
            if e["op"] == "Add":
                return self.count_expr(l, lenname) + self.count_expr(r, lenname)
        if k == "Match" and (tir.place(e["scrut"]) or "").endswith(".follower") and len(e["arms"]) == 2:
            # match &p.follower { Some(f) => .., None => 0 }
            some = none = None
            for a in e["arms"]:
                q = a["pat"]
                while q.get("k") == "Ref":
                    q = q["pat"]
                if q.get("k") == "TupleStruct" and (q.get("path") or "").endswith("Some") and not a.get("guard"):
                    some = a["body"]
                elif not a.get("guard"):
                    none = a["body"]
            if some is not None and none is not None and tir.lit_int(none) == 0:
                return Poly.atom("SOME(follower)") * self.count_expr(some, lenname)
        if k == "MethodCall" and e["method"] == "map_or" and tir.lit_int(e["args"][0]) == 0:
            pl = tir.place(e["recv"]) or ""
            cl = strip(e["args"][1])
            if pl.endswith(".follower") and cl.get("k") == "Closure":
                return Poly.atom("SOME(follower)") * self.count_expr(cl["body"], lenname)
            if pl.endswith("frames.item") and cl.get("k") == "Closure" and tir.pretty(cl["body"]).startswith("(i.id.len()"):
                return Poly.atom("ITEMS")
        raise Unsupported(e, "frame count outside the fragment: " + tir.pretty(e)[:80])

    def poly(self):
        b = self.F.body("io::slippi::ser::PayloadSizes::raw_size")
        counts = self.counts()
        val = L.strip_try(b["tir"]["value"])
        return self.ev(val.get("tail"), counts, {})

    def ev(self, e, counts, env):
        e = strip(e)
        k = e.get("k")
        v = tir.lit_int(e)
        if v is not None and k == "Lit":
            return Poly.const(v)
        if k == "Cast":
            return self.ev(e["e"], counts, env)
        if k == "Block" and not e.get("stmts"):
            return self.ev(e["tail"], counts, env)
        if k == "Binary" and e["op"] in ("Add", "Mul"):
            l, r = self.ev(e["l"], counts, env), self.ev(e["r"], counts, env)
            return l + r if e["op"] == "Add" else l * r
        if k == "Unary" and e.get("op") == "Deref":
            return self.ev(e["e"], counts, env)
        if k == "Path" and e.get("res") == "local" and e["name"] in env:
            return env[e["name"]]
        if k == "MethodCall" and e["method"] == "len" and tir.place(e["recv"]) == "self.sizes":
            return Poly.atom("N_TABLE")
        if k == "Index":
            ev = event_of(e["index"])
            if ev and tir.place(e["base"]) == "sizes":
                return Poly.atom("sz[%s]" % ev)
        if k == "Field" and tir.place(e["base"]) == "counts" and e["name"] in counts:
            return counts[e["name"]]
        if k == "MethodCall" and e["method"] == "map_or" and tir.lit_int(e["args"][0]) == 0:
            r = strip(e["recv"])
            f = strip(e["args"][1])
            if r.get("k") == "MethodCall" and r["method"] == "get" and tir.place(r["recv"]) == "sizes":
                ev = event_of(r["args"][0])
                if ev and f.get("k") == "Closure":
                    env2 = dict(env)
                    env2[f["params"][0].get("name")] = Poly.atom("sz[%s]" % ev)
                    return Poly.atom("HAS[%s]" % ev) * self.ev(f["body"], counts, env2)
            pl = tir.place(r)
            if pl == "game.end" and f.get("k") == "Closure":
                return Poly.atom("END") * self.ev(f["body"], counts, env)
            if pl == "game.gecko_codes" and f.get("k") == "Path" and f.get("path") == "io::slippi::ser::gecko_codes_size":
                return Poly.atom("GECKO") * self.gecko_size()
        bb = tir.bool_branch(e) if k in ("Match", "If") else None
        if bb is not None and bb[2] is not None:
            sc = strip(bb[0])
            if sc.get("k") == "MethodCall" and sc["method"] in ("is_some", "is_none") and not sc.get("args") and tir.place(sc["recv"]) == "game.end":
                t, f_ = (bb[1], bb[2]) if sc["method"] == "is_some" else (bb[2], bb[1])
                return Poly.atom("END") * self.ev(t, counts, env) + (Poly.const(1) - Poly.atom("END")) * self.ev(f_, counts, env)
            off = tir.opt_field_flag(sc)
            if off and (off[0] or "").endswith("quirks") and off[1] == "double_game_end":
                t = self.ev(bb[1], counts, env)
                f_ = self.ev(bb[2], counts, env)
                return Poly.atom("DOUBLE") * t + (Poly.const(1) - Poly.atom("DOUBLE")) * f_
        if k == "Block" and not e.get("stmts") and e.get("tail") is not None:
            return self.ev(e["tail"], counts, env)
        raise Unsupported(e, "raw_size term outside the fragment: " + tir.pretty(e)[:90])

    def gecko_size(self):
        b = self.F.body("io::slippi::ser::gecko_codes_size")
        val = L.strip_try(b["tir"]["value"])
        env = {}
        for s in val.get("stmts", []):
            if s.get("k") == "Let" and s["pat"].get("k") == "Bind":
                t = tir.pretty(s["init"])
                if "gecko_codes.bytes.len()" in t and t.rstrip(")").endswith("Div 512"):
                    env[s["pat"]["name"]] = Poly.atom("GECKO_BLOCKS")
        return self.ev(val.get("tail"), {}, env)


# ------------------------------------------------------------------------------------------------ rule

def flatten_table(items, v, gecko):
    env = L.VEnv(v, {"game.gecko_codes": gecko})
    return [l for l in L.flatten(items, env) if l["op"] == "entry"]


def canon_place_atoms(p, mapping):
    out = Poly()
    for k, c in p.items():
        k2 = tuple(sorted(mapping.get(a, a) for a in k))
        out[k2] = out.get(k2, 0) + c
        if out[k2] == 0:
            del out[k2]
    return out


TABLE_ALIASES = {"len(e.bytes.0)": "len(game.end.bytes.0)", "len(((codes.actual_size as u16) as usize))": "len(gecko.actual_size)", "len(codes.actual_size)": "len(gecko.actual_size)"}


def raw_region(F, v, fixed):
    """(total polynomial, events, order) of the writer restricted to the raw element"""
    b = F.body("io::slippi::ser::write")
    val = L.strip_try(b["tir"]["value"])
    stmts = val.get("stmts", []) + ([val["tail"]] if val.get("tail") else [])
    per = []
    w = Writer(F, v, fixed)
    w.bodies.append(b["tir"]["value"])
    for s in stmts:
        n0 = len(w.events)
        p = w.run(s, Poly.const(1))
        per.append((p, len(w.events) > n0))
    idx = [i for i, (p, has) in enumerate(per) if has]
    if not idx:
        raise Unsupported(val, "the writer emits no events")
    first, last = idx[0], idx[-1]
    tot = Poly()
    for i in range(first, last + 1):
        tot = tot + per[i][0]
    # the statement that emits Payloads may start with non-raw writes? require it to begin with the event code
    outside = Poly()
    for i in list(range(0, first)) + list(range(last + 1, len(per))):
        outside = outside + per[i][0]
    return tot, w.events, w.order, outside


def rule_emission(F, rep, M, pid_rule="emission"):
    import model
    spec = model.load_spec("events.json")
    try:
        table = table_entries(F)
        raw = RawSize(F).poly()
    except Unsupported as e:
        rep.cannot(pid_rule, "io::slippi::ser", e)
        return
    fixed = {}
    for l in L.tree_leaves(table):
        if l.get("op") == "entry" and set(l["size"]) <= {()}:
            fixed[l["event"]] = l["size"].get((), 0)
    n_sites = 0
    problems = {}
    sample_done = False
    for v in M.classes:
        for gecko in ((False, True) if v >= (3, 3) else (False,)):
            try:
                tot, events, order, outside = raw_region(F, v, fixed)
            except Unsupported as e:
                rep.cannot(pid_rule, "io::slippi::ser::write", e)
                return
            ents = flatten_table(table, v, gecko)
            tnames = [l["event"] for l in ents]
            tsize = {l["event"]: canon_place_atoms(l["size"], TABLE_ALIASES) for l in ents}
            n_sites = max(n_sites, len(events))
            # (a) canonical table order and spec gates
            want_tab = [e for e in spec["payload_table_order"] if v >= model.parse_ver(spec["events"][e]["since"]) and (gecko or e not in ("GeckoCodes", "MessageSplitter"))]
            rep.obligations += 1
            if tnames == want_tab:
                rep.discharged += 1
            else:
                problems.setdefault(("table-order", "payload_sizes", "table", "payload table for %s is %s, the spec prescribes %s" % ("%s", tnames, want_tab)), []).append(v)
            # (b) every emission has a table entry of exactly the emitted size
            emitted = set()
            for e in events:
                X = e["event"]
                if X == "Payloads":
                    continue
                mult = canon(e["mult"])
                if not gecko:
                    mult = mult.subst({"GECKO": Poly()})
                if not mult:
                    continue
                emitted.add(X)
                rep.obligations += 1
                if X not in tsize:
                    problems.setdefault(("undeclared", e["site"], X, "event %s is emitted (x %s) for %s but payload_sizes declares no entry for it: the file cannot be read back" % (X, mult.show(), "%s")), []).append(v)
                    continue
                lhs = canon_place_atoms(e["bytes"], TABLE_ALIASES) * mult
                rhs = tsize[X] * mult
                if lhs == rhs and not e.get("irregular"):
                    rep.discharged += 1
                else:
                    problems.setdefault(("size-mismatch", e["site"], X, "event %s writes %s payload bytes but its table entry declares %s (%s)" % (X, e["bytes"].show(), tsize[X].show(), "%s")), []).append(v)
            # (c) every declared event is emitted (GeckoCodes travels inside splitter blocks)
            for X in tnames:
                if X in ("GeckoCodes",):
                    continue
                if X == "GameEnd":
                    continue   # emitted iff game.end is present; declared always (readers require the entry)
                rep.obligations += 1
                if X in emitted:
                    rep.discharged += 1
                else:
                    problems.setdefault(("never-emitted", "payload_sizes", X, "event %s is declared in the table for %s but never emitted" % (X, "%s")), []).append(v)
            # (d) total: writer bytes inside the raw element == raw_size
            sub = {"HAS[%s]" % X: (Poly.const(1) if X in tsize else Poly()) for X in spec["events"]}
            for X, p in tsize.items():
                sub["sz[%s]" % X] = p
            rs = raw.subst(sub)
            wt = canon(tot)
            if not gecko:
                rs = rs.subst({"GECKO": Poly()})
                wt = wt.subst({"GECKO": Poly()})
            rs, wt = canon(rs), canon_place_atoms(wt, TABLE_ALIASES)
            rep.obligations += 1
            if rs == wt:
                rep.discharged += 1
                if not sample_done and v == (3, 16) and gecko:
                    sample_done = True
                    rep.samples.append({"rule": pid_rule + ".total", "class": M.class_name(v), "raw_size": rs.show()[:600]})
            else:
                d = wt - rs
                problems.setdefault(("total", "io::slippi::ser::PayloadSizes::raw_size", "raw-length", "declared raw length differs from the bytes written: written - declared = %s (%s)" % (d.show()[:300], "%s")), []).append(v)
            # (e) canonical emission order
            seq = []
            for X, mult, site in order:
                if X not in seq:
                    seq.append(X)
            want_seq = ["Payloads", "GameStart"] + (["MessageSplitter"]) + [e for e in spec["frame_emission_order"] if v >= model.parse_ver(spec["events"][e]["since"])] + ["GameEnd"]
            got_seq = [x for x in seq]
            if v < (3, 3):
                want_seq = [x for x in want_seq if x != "MessageSplitter"]
                got_seq = [x for x in got_seq if x != "MessageSplitter"]
            rep.obligations += 1
            if got_seq == want_seq:
                rep.discharged += 1
            else:
                problems.setdefault(("order", "io::slippi::ser::write", "emission-order", "events are emitted in the order %s, the canonical order is %s (%s)" % (got_seq, want_seq, "%s")), []).append(v)
    rep.counts[pid_rule + ".emission_sites"] = n_sites
    rep.counts[pid_rule + ".classes_x_gecko"] = len(M.classes) + len([v for v in M.classes if v >= (3, 3)])
    for (rule, fn, construct, msg), vs in sorted(problems.items(), key=str):
        rep.violation(pid_rule + "." + rule, fn, construct, msg % ("%d version classes, first %s" % (len(vs), M.class_name(vs[0]))))
    return table, raw
