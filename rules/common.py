"""Shared check harness: obligations, violation keys, known findings, evidence, exit codes."""
import json
import os
import sys
import time

VERIF = os.path.dirname(os.path.dirname(os.path.abspath(__file__)))
EVID = os.environ.get("PEPPI_EVID", os.path.join(VERIF, "evidence"))
KNOWN = os.path.join(VERIF, "known_findings.json")

EXIT_OK, EXIT_VIOLATION, EXIT_BROKEN = 0, 1, 2


class Broken(Exception):
    """The checker itself cannot do its job (missing anchor for a positive control, fact extraction failed)."""


def load_known():
    if not os.path.exists(KNOWN):
        return []
    with open(KNOWN) as fh:
        return json.load(fh).get("findings", [])


class Report:
    def __init__(self, pid, tier):
        self.pid = pid
        self.tier = tier
        self.t0 = time.time()
        self.obligations = 0
        self.discharged = 0
        self.violations = []     # dicts: key, rule, fn, construct, msg, site
        self.notes = []
        self.samples = []
        self.counts = {}
        self.controls = []
        self._ord = {}
        self.assumptions = []
        self.trusted = []
        self.not_decided = []

    # -- obligations -----------------------------------------------------------------
    def ob(self, rule, ok, fn="", construct="", msg="", site="", sample=None):
        """One rule instance. ok=False records a violation keyed without line numbers."""
        self.obligations += 1
        self.counts[rule] = self.counts.get(rule, 0) + 1
        if ok:
            self.discharged += 1
            if sample is not None and len([s for s in self.samples if s.get("rule") == rule]) < 3:
                s = {"rule": rule}
                s.update(sample if isinstance(sample, dict) else {"instance": sample})
                self.samples.append(s)
        else:
            self.violation(rule, fn, construct, msg, site)
        return ok

    def violation(self, rule, fn, construct, msg, site=""):
        base = "%s|%s|%s|%s" % (self.pid, rule, fn, construct)
        n = self._ord.get(base, 0)
        self._ord[base] = n + 1
        self.violations.append(dict(key="%s|%d" % (base, n), rule=rule, fn=fn, construct=construct, msg=msg, site=site))

    def cannot(self, rule, fn, exc):
        """Fail closed on a construct outside the engine's fragment."""
        self.obligations += 1
        self.violation(rule, fn, "cannot-establish", "cannot-establish: %s" % exc, getattr(exc, "node", None) and _sp(exc.node) or "")

    def floor(self, what, count, minimum):
        """Instance floors: a rule matching fewer sites than were counted by hand fails closed."""
        self.counts["floor:" + what] = count
        self.obligations += 1
        if count >= minimum:
            self.discharged += 1
        else:
            self.violation("floor", what, "count", "anchor count for %s fell to %d (< %d): rule would pass vacuously" % (what, count, minimum))

    def control(self, name, fired):
        """Positive control: the rule must fire on a deliberately broken instance."""
        self.controls.append({"control": name, "fired": bool(fired)})

    def note(self, s):
        self.notes.append(s)

    # -- finish ----------------------------------------------------------------------
    def finish(self, level, explanation, checker_cmd):
        known = {k["key"]: k for k in load_known() if k["property"] == self.pid}
        new, listed = [], []
        for v in self.violations:
            if v["key"] in known:
                listed.append((v, known[v["key"]]))
            else:
                new.append(v)
        os.makedirs(EVID, exist_ok=True)
        rpt = os.path.join(EVID, "%s.report.txt" % self.pid)
        lines = []
        for v, k in listed:
            line = "KNOWN-FINDING: property=%s %s [%s]" % (self.pid, k["what"], v["key"])
            print(line)
            lines.append(line + "\n    " + v["msg"] + (" @ " + v["site"] if v["site"] else ""))
        for v in new:
            lines.append("VIOLATION %s rule=%s fn=%s construct=%s\n    %s%s\n    key=%s" % (
                self.pid, v["rule"], v["fn"], v["construct"], v["msg"], (" @ " + v["site"]) if v["site"] else "", v["key"]))
        for n in self.notes:
            lines.append("note: " + n)
        with open(rpt, "w") as fh:
            fh.write("\n".join(lines) + "\n")
        # a proof-level claim needs every obligation discharged by the ordinary rule
        lvl = level
        if lvl == "proof" and (new or listed or self.discharged != self.obligations):
            lvl = "other"
        ev = {
            "property_id": self.pid,
            "tier": self.tier,
            "seed": int(os.environ.get("VERIF_SEED", "0") or 0),
            "level": lvl,
            "coverage": {
                "obligations": self.obligations,
                "discharged": self.discharged,
                "checker_cmd": checker_cmd,
                "trusted_base": self.trusted,
                "explanation": explanation,
                "exhaustive": True,
                "rule_instances": self.counts,
                "samples": self.samples[:40],
                "positive_controls": self.controls,
                "known_findings_printed": [k["key"] for _, k in listed],
                "not_decided": self.not_decided,
                "notes": self.notes[:60],
            },
            "assumptions": self.assumptions,
            "wall_s": round(time.time() - self.t0, 3),
            "violations": len(new),
        }
        with open(os.path.join(EVID, "%s.json" % self.pid), "w") as fh:
            json.dump(ev, fh, indent=1)
        for v in new:
            print("  %s: %s%s" % (v["rule"], v["msg"], (" @ " + v["site"]) if v["site"] else ""))
        blind = [c["control"] for c in self.controls if not c["fired"]]
        if blind and not new:
            # on a healthy tree every control must fire; on a tree that already violates the property a control that
            # perturbs the same construct may cancel out, so the violation is reported instead
            raise Broken("positive control did not fire, the rule is blind: %s" % "; ".join(blind))
        print("%s %s: obligations=%d discharged=%d known=%d new=%d (%.2fs)" % (
            self.pid, self.tier, self.obligations, self.discharged, len(listed), len(new), time.time() - self.t0))
        if new:
            print("VIOLATION property=%s replay=%s" % (self.pid, rpt))
            return EXIT_VIOLATION
        return EXIT_OK


def _sp(n):
    s = n.get("sp") if isinstance(n, dict) else None
    return "%s:%d" % (s[0], s[1]) if s else ""
