"""Stream identity in the .slp reader: every reader function receives *the* input stream — the caller's stream parameter (or
the hashing wrapper built from it once in `read`), reborrowed — never an adapter around it. An adapter changes what the
callee can see (`take(n)` bounds it, `chain` extends it) or how much is pulled from the underlying stream (`BufReader`
reads ahead, through the hasher, past what the parser consumes).

  S1  at every call of a local function with a generic stream parameter, the argument in that position strips
      (`&mut x`, `x.by_ref()`, `&mut *x`, immutable let aliases) to a stream root of the calling function
  S2  adapter constructions over a stream root (`take`, `chain`, `bytes`, `BufReader::new/with_capacity`, `Cursor::new`)
      are inventoried; the only one in the pinned tree is the skip-frames `r.by_ref().take(skip)` fed to io::copy
"""
import re

import tir
from tir import strip, declared

ADAPTER_METHODS = ("take", "chain", "bytes")
ADAPTER_CTORS = re.compile(r"^std::io::(BufReader|Cursor|Take|Chain)(::<.*>)?::(new|with_capacity)$")
WRAPPER = "io::HashingReader"


def peel_ty(ty):
    ty = (ty or "").strip()
    while ty.startswith("&"):
        ty = ty[1:].strip()
        if ty.startswith("mut "):
            ty = ty[4:].strip()
    return ty


def stream_positions(f, kind="R"):
    """indices of a fn's inputs whose type is one of its own generic parameters (by value or behind references)"""
    gs = set(f.get("generics") or [])
    return [i for i, t in enumerate(f.get("inputs") or []) if peel_ty(t) in gs]


class Streams:
    def __init__(self, F, fns):
        self.F = F
        self.fns = [p for p in fns if p in F.fns and F.body(p) is not None]

    def roots(self, path):
        """ids of the stream roots of a fn: its generic-typed parameters, and locals bound to HashingReader::new(<root>, ..)"""
        b = self.F.body(path)
        f = self.F.fns[path]
        gs = set(f.get("generics") or [])
        roots = {}
        for p in b["tir"]["params"]:
            if p.get("k") == "Bind" and peel_ty(p.get("ty")) in gs:
                roots[p["id"]] = p.get("name")
        changed = True
        while changed:
            changed = False
            for n in tir.walk(b["tir"]["value"]):
                if n.get("k") == "Let" and n["pat"].get("k") == "Bind" and n["pat"]["id"] not in roots and n.get("init") is not None:
                    i = strip(n["init"])
                    if i.get("k") == "Call" and re.search(r"HashingReader(::<.*>)?::new$", i.get("path") or "") and i.get("args"):
                        a = self.bare(i["args"][0], roots, None)
                        if a is not None:
                            roots[n["pat"]["id"]] = n["pat"].get("name")
                            changed = True
                    else:
                        # `let r = &mut r;` / `let r = r.by_ref();` aliases
                        a = self.bare(n["init"], roots, None)
                        if a is not None and peel_ty(n["pat"].get("ty")) == peel_ty(strip(n["init"]).get("ty") or n["init"].get("ty")):
                            roots[n["pat"]["id"]] = n["pat"].get("name")
                            changed = True
        return roots

    @staticmethod
    def bare(e, roots, env):
        """the root id an expression denotes after peeling borrows / by_ref / derefs, or None"""
        for _ in range(8):
            e = strip(e)
            k = e.get("k")
            if k == "AddrOf":
                e = e["e"]
            elif k == "Unary" and e.get("op") == "Deref":
                e = e["e"]
            elif k == "MethodCall" and e.get("method") == "by_ref" and not e.get("args"):
                e = e["recv"]
            elif k == "Path" and e.get("res") == "local":
                return e.get("id") if e.get("id") in roots else None
            else:
                return None
        return None

    def check(self, rep, rule, allowed_adapters):
        n_calls = 0
        n_adapters = 0
        for path in self.fns:
            b = self.F.body(path)
            roots = self.roots(path)
            if not roots:
                continue
            for c in tir.walk(b["tir"]["value"]):
                k = c.get("k")
                if k not in ("Call", "MethodCall"):
                    continue
                cal = tir.callee(c) or declared(c) or ""
                args = ([c["recv"]] if k == "MethodCall" else []) + list(c.get("args", []))
                f = self.F.fns.get(cal)
                if f is not None and cal in self.fns:
                    for i in stream_positions(f):
                        if i >= len(args):
                            continue
                        n_calls += 1
                        ok = self.bare(args[i], roots, None) is not None
                        rep.ob(rule, ok, path, "%s#%d" % (tir.short(cal), i),
                               "%s is handed `%s` as its input stream, not the caller's stream itself: an adapter (take/chain/BufReader/..) bounds, extends or reads ahead of what the parser consumes" % (
                                   tir.short(cal), tir.pretty(args[i])[:80]), tir.sp(c))
                # adapter constructions over a root
                made = None
                if k == "MethodCall" and c["method"] in ADAPTER_METHODS and self.bare(c["recv"], roots, None) is not None and (declared(c) or "").startswith("std::io::Read::"):
                    made = c["method"]
                elif k == "Call" and ADAPTER_CTORS.match(c.get("path") or "") and c.get("args") and self.bare(c["args"][0], roots, None) is not None:
                    made = (c.get("path") or "").split("::")[2].split("<")[0]
                if made:
                    n_adapters += 1
                    key = (path, made)
                    rep.ob(rule + ".adapters", key in allowed_adapters, path, made,
                           "an input-stream adapter `%s` is built over the reader's stream in %s (only %s are part of the reader)" % (made, path, sorted(allowed_adapters)), tir.sp(c))
        rep.counts["stream_argument_sites"] = n_calls
        rep.counts["stream_adapter_sites"] = n_adapters
        return n_calls, n_adapters


SLP_ALLOWED = {("io::slippi::de::read", "take")}


def closure(F, entries):
    """the reader functions: the entries plus every local fn that is handed a stream root (or anything built from one) in a
    generic-parameter position by a function already in the set"""
    seen = [p for p in entries if p in F.fns and F.body(p) is not None]
    work = list(seen)
    while work:
        path = work.pop()
        b = F.body(path)
        S = Streams(F, [path])
        roots = S.roots(path)
        if not roots:
            continue
        for c in tir.walk(b["tir"]["value"]):
            if c.get("k") not in ("Call", "MethodCall"):
                continue
            cal = tir.callee(c) or declared(c) or ""
            f = F.fns.get(cal)
            if f is None or cal in seen or F.body(cal) is None:
                continue
            args = ([c["recv"]] if c["k"] == "MethodCall" else []) + list(c.get("args", []))
            for i in stream_positions(f):
                if i < len(args) and any(x.get("k") == "Path" and x.get("res") == "local" and x.get("id") in roots for x in tir.walk(args[i])):
                    seen.append(cal)
                    work.append(cal)
                    break
    return seen


def slp_rule(F, rep, rule="stream.identity"):
    fns = closure(F, ["io::slippi::de::read", "io::slippi::de::parse_header", "io::slippi::de::parse_start", "io::slippi::de::parse_event", "io::slippi::de::parse_metadata"])
    S = Streams(F, fns)
    n_calls, n_adapters = S.check(rep, rule, SLP_ALLOWED)
    rep.counts["reader_functions_with_a_stream_parameter"] = len(fns)
    rep.floor("reader functions with a stream parameter", len(fns), 12)
    rep.floor("stream argument sites in the .slp reader", n_calls, 14)
    rep.floor("stream adapter sites in the .slp reader (the skip-frames take)", n_adapters, 1)
