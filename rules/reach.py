"""E3 — reachability over the MIR call graph + panic/abort/sleep inventory."""
import re

PANIC_FNS = (
    "core::panicking::", "std::rt::begin_panic", "std::rt::panic_fmt", "core::option::unwrap_failed", "core::option::expect_failed",
    "core::result::unwrap_failed", "std::process::abort", "std::process::exit", "core::slice::index::slice_",
    "core::str::slice_error_fail", "alloc::alloc::handle_alloc_error", "alloc::raw_vec::capacity_overflow",
)

# external callees that panic by contract: path regex -> (kind, condition)
CONTRACT = [
    (r"^std::option::Option::<T>::(unwrap|expect)$", "unwrap", "None"),
    (r"^std::result::Result::<T, E>::(unwrap|expect|unwrap_err|expect_err)$", "unwrap", "Err"),
    (r"^std::ops::Index::index$|^std::ops::IndexMut::index_mut$", "index", "out of bounds / missing key"),
    (r"^std::iter::Iterator::step_by$", "step_by", "step == 0"),
    (r"^std::slice::<impl \[T\]>::copy_from_slice$", "copy_from_slice", "length mismatch"),
    (r"^std::slice::<impl \[T\]>::split_at(_mut)?$", "split_at", "mid > len"),
    (r"^std::vec::Vec::<T(, A)?>::(remove|insert|swap_remove|drain|split_off)$", "vec-index", "out of bounds"),
    (r"^core::num::<impl \w+>::(pow|abs|div_euclid|rem_euclid|ilog\w*)$", "arith", "overflow"),
    (r"^std::cell::RefCell::<T>::borrow(_mut)?$", "refcell", "already borrowed"),
    (r"^std::string::String::(remove|insert|truncate|split_off|drain)$|^std::str::<impl str>::split_at$", "str-index", "boundary"),
    (r"^(std|alloc)::vec::from_elem$|^std::vec::Vec::<T(, A)?>::(with_capacity|reserve|reserve_exact|resize)$|^std::string::String::(with_capacity|reserve)$", "alloc", "capacity overflow (more than isize::MAX bytes requested)"),
]
CONTRACT = [(re.compile(r), k, c) for r, k, c in CONTRACT]

BLOCKING = (
    "std::thread::sleep", "std::thread::park", "std::thread::park_timeout", "std::thread::yield_now", "std::sync::Condvar::",
    "std::sync::mpsc::Receiver", "std::sync::Barrier::wait", "std::hint::spin_loop", "std::thread::JoinHandle::<T>::join",
)

PANIC_MACROS = ("assert", "assert_eq", "assert_ne", "panic", "unreachable", "unimplemented", "todo", "debug_assert", "debug_assert_eq", "debug_assert_ne")


def owner_of(path):
    """closure bodies belong to their defining fn"""
    return re.sub(r"(::\{closure#\d+\})+$", "", path)


class Graph:
    def __init__(self, F):
        self.F = F
        self.bodies = {}      # owner path -> list of (body path, mir)
        for b in F.doc["bodies"]:
            if b.get("mir") and not b.get("mir_inlined"):
                self.bodies.setdefault(owner_of(b["path"]), []).append((b["path"], b["mir"], b))
        self.local = set(self.bodies)
        self._edges = {}

    def calls(self, owner):
        """all Call terminators of a fn (closures merged): (body path, block idx, term)"""
        for bp, mir, _ in self.bodies.get(owner, []):
            for i, blk in enumerate(mir["blocks"]):
                t = blk["term"]
                if t.get("t") == "call":
                    yield bp, i, t

    @staticmethod
    def callee(t):
        return t.get("resolved") or t.get("fn")

    def edges(self, owner):
        if owner in self._edges:
            return self._edges[owner]
        out = {}
        for bp, i, t in self.calls(owner):
            c = self.callee(t)
            if c:
                c = owner_of(c)
                if c in self.local:
                    out.setdefault(c, t)
            # fn items passed as values (map_err(invalid_data), try_for_each(f))
            for a in t.get("args", []):
                if a.get("o") == "const" and a.get("fn"):
                    c2 = owner_of(a["fn"])
                    if c2 in self.local:
                        out.setdefault(c2, t)
        for bp, mir, _ in self.bodies.get(owner, []):
            for blk in mir["blocks"]:
                for s in blk["stmts"]:
                    r = s["r"]
                    ops = []
                    for k in ("a", "b"):
                        if isinstance(r.get(k), dict):
                            ops.append(r[k])
                    ops += r.get("ops", [])
                    for a in ops:
                        if a.get("o") == "const" and a.get("fn"):
                            c2 = owner_of(a["fn"])
                            if c2 in self.local:
                                out.setdefault(c2, None)
        self._edges[owner] = out
        return out

    def reachable(self, entries):
        """BFS tree: owner -> parent owner (None for entries)"""
        parent = {}
        q = []
        for e in entries:
            if e in self.local:
                parent[e] = None
                q.append(e)
        while q:
            x = q.pop(0)
            for c in sorted(self.edges(x)):
                if c not in parent:
                    parent[c] = x
                    q.append(c)
        return parent

    def path_to(self, parent, fn):
        p = []
        while fn is not None:
            p.append(fn)
            fn = parent.get(fn)
        return " <- ".join(short(x) for x in p)

    def external_calls(self, owners):
        """external (non-local) callees used by the given fns: callee -> [(owner, term)]"""
        out = {}
        for o in owners:
            for bp, i, t in self.calls(o):
                c = self.callee(t)
                if c and owner_of(c) not in self.local:
                    out.setdefault(c, []).append((o, t))
                elif not c:
                    out.setdefault("<indirect %s>" % t.get("indirect"), []).append((o, t))
        return out

    def sites(self, owner):
        """panic-capable sites of a fn: dicts(kind, what, body, block, sp, mac, term)"""
        out = []
        for bp, mir, _ in self.bodies.get(owner, []):
            for i, blk in enumerate(mir["blocks"]):
                if blk.get("cleanup"):
                    continue
                t = blk["term"]
                if t.get("t") == "assert":
                    if t["kind"].startswith("ub_check:"):
                        continue   # debug-build pointer/enum validity checks: cannot fire in safe code
                    out.append(dict(kind=t["kind"], what=t["kind"], body=bp, block=i, sp=t.get("sp"), mac=t.get("mac") or [], term=t, mir=mir))
                elif t.get("t") == "call":
                    c = self.callee(t) or ""
                    d = t.get("fn") or ""
                    if any(c.startswith(p) or d.startswith(p) for p in PANIC_FNS):
                        out.append(dict(kind="panic", what=d, body=bp, block=i, sp=t.get("sp"), mac=t.get("mac") or [], term=t, mir=mir))
                        continue
                    for rx, k, cond in CONTRACT:
                        if rx.search(d) or rx.search(c):
                            out.append(dict(kind=k, what=d + (" -> " + c if c != d else ""), body=bp, block=i, sp=t.get("sp"), mac=t.get("mac") or [], term=t, mir=mir, cond=cond))
                            break
        # `debug_assert*!` and everything evaluated inside it is absent from release builds: outside the panic inventory's
        # scope (DESIGN section 7); arithmetic overflow checks, which *wrap* in release builds, stay in
        return [s for s in out if not any(m.split("::")[-1] in ("debug_assert", "debug_assert_eq", "debug_assert_ne") for m in s["mac"])]

    def cycles(self, owners):
        """strongly connected components with a cycle, restricted to `owners`"""
        owners = set(owners)
        index, low, onst, st, res = {}, {}, set(), [], []
        counter = [0]

        import sys
        sys.setrecursionlimit(10000)

        def dfs(v):
            index[v] = low[v] = counter[0]
            counter[0] += 1
            st.append(v)
            onst.add(v)
            for w in self.edges(v):
                if w not in owners:
                    continue
                if w not in index:
                    dfs(w)
                    low[v] = min(low[v], low[w])
                elif w in onst:
                    low[v] = min(low[v], index[w])
            if low[v] == index[v]:
                comp = []
                while True:
                    w = st.pop()
                    onst.discard(w)
                    comp.append(w)
                    if w == v:
                        break
                if len(comp) > 1 or v in self.edges(v):
                    res.append(sorted(comp))
        for v in sorted(owners):
            if v not in index:
                dfs(v)
        return res


def short(p):
    return re.sub(r"\b(?:[a-z_0-9]+::)+(?=[A-Za-z_<{])", "", p) if len(p) > 50 else p


def spstr(sp):
    return "%s:%d" % (sp[0], sp[1]) if sp else "?"


# ---------------------------------------------------------------- MIR dataflow helpers

def defs_of(mir, local):
    """all assignments `_local = rvalue` (whole-local, no projection) in the body"""
    out = []
    for i, blk in enumerate(mir["blocks"]):
        for s in blk["stmts"]:
            if s["lhs"]["l"] == local and not s["lhs"].get("pr"):
                out.append((i, s))
        t = blk["term"]
        if t.get("t") == "call" and t["dest"]["l"] == local and not t["dest"].get("pr"):
            out.append((i, t))
    return out


def operand_local(o):
    if o.get("o") in ("copy", "move") and not o["p"].get("pr"):
        return o["p"]["l"]
    return None


def trace(mir, o, depth=0):
    """Follow copies/moves back to a defining rvalue/call: returns the defining statement or the operand."""
    while depth < 12:
        l = operand_local(o) if isinstance(o, dict) and "o" in o else None
        if l is None:
            return o
        ds = defs_of(mir, l)
        if len(ds) != 1:
            return {"multi": ds, "local": l}
        d = ds[0][1]
        if "r" in d and d["r"].get("rv") == "use":
            o = d["r"]["a"]
            depth += 1
            continue
        return d
    return o


def cfg_succ(mir):
    succ = []
    for blk in mir["blocks"]:
        t = blk["term"]
        k = t.get("t")
        s = []
        if k == "goto":
            s = [t["target"]]
        elif k == "switch":
            s = [b for _, b in t["targets"]] + [t["otherwise"]]
            # a switch on a constant assigned in the same block (`cfg!(debug_assertions)` inside debug_assert!) has one live edge
            dl = (t.get("discr") or {}).get("p", {}).get("l") if (t.get("discr") or {}).get("o") in ("move", "copy") else None
            if dl is not None and not (t["discr"]["p"].get("pr")):
                val = None
                for st in blk["stmts"]:
                    if st["lhs"]["l"] == dl and not st["lhs"].get("pr"):
                        a = st["r"].get("a") if st["r"].get("rv") == "use" else None
                        val = a.get("bits") if isinstance(a, dict) and a.get("o") == "const" and "bits" in a else None
                if val is not None:
                    hit = [b for v, b in t["targets"] if v == val]
                    s = hit[:1] if hit else [t["otherwise"]]
        elif k in ("call", "assert", "drop"):
            if t.get("target") is not None:
                s = [t["target"]]
        succ.append(s)
    return succ


def dominators(mir):
    """immediate-dominator-free dominator sets (bodies are small)"""
    succ = cfg_succ(mir)
    n = len(succ)
    pred = [[] for _ in range(n)]
    for i, ss in enumerate(succ):
        for s in ss:
            pred[s].append(i)
    # reachable from entry
    reach = set()
    st = [0]
    while st:
        x = st.pop()
        if x in reach:
            continue
        reach.add(x)
        st.extend(succ[x])
    # predecessors that cannot be reached from the entry (the dead edge of a folded constant switch) are not predecessors
    pred = [[p for p in ps if p in reach] for ps in pred]
    dom = {i: set(reach) for i in reach}
    dom[0] = {0}
    changed = True
    order = sorted(reach)
    while changed:
        changed = False
        for i in order:
            if i == 0:
                continue
            ps = [p for p in pred[i] if p in reach]
            new = set(reach)
            for p in ps:
                new &= dom[p]
            new.add(i)
            if new != dom[i]:
                dom[i] = new
                changed = True
    return dom, succ, pred, reach
