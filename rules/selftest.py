"""Mutant self-test: apply each seeded patch to a scratch copy of /repo (outside /repo and /verif), re-extract facts,
and require the named check to report a violation. Usage: selftest.py [--only substr] [--jobs N]"""
import json
import os
import shutil
import subprocess
import sys
import tempfile
from concurrent.futures import ThreadPoolExecutor

VERIF = os.path.dirname(os.path.dirname(os.path.abspath(__file__)))
REPO = os.environ.get("PEPPI_REPO", "/repo")


def catalogue():
    with open(os.path.join(VERIF, "mutants", "catalogue.json")) as fh:
        return json.load(fh)["mutants"]


def run_one(m):
    scratch = tempfile.mkdtemp(prefix="peppi-mut-")
    try:
        if os.environ.get("PEPPI_SNAPSHOT") == "head":
            # development runs: copy HEAD's tree, so that a seeded change being applied to /repo's working tree meanwhile is not picked up
            tar = subprocess.Popen(["git", "-C", REPO, "archive", "HEAD"], stdout=subprocess.PIPE)
            subprocess.check_call(["tar", "-x", "-C", scratch], stdin=tar.stdout)
            tar.wait()
        else:
            subprocess.check_call(["rsync", "-a", "--exclude", "target", "--exclude", ".git", REPO + "/", scratch + "/"])
        patch = os.path.join(VERIF, m["patch"])
        r = subprocess.run(["patch", "-p1", "--no-backup-if-mismatch", "-s", "-d", scratch, "-i", patch], capture_output=True, text=True)
        if r.returncode != 0:
            return m, "patch-failed", r.stdout + r.stderr
        evid = os.path.join(scratch, "_evid")
        os.makedirs(evid)
        env = dict(os.environ, PEPPI_REPO=scratch, PEPPI_EVID=evid)
        results = {}
        for pid in m["caught_by"]:
            c = subprocess.run([os.path.join(VERIF, "check"), pid, "--tier", "quick"], env=env, capture_output=True, text=True, cwd=VERIF)
            results[pid] = (c.returncode, c.stdout)
        return m, "ran", results
    finally:
        shutil.rmtree(scratch, ignore_errors=True)


def run_patch(patch, pids):
    """apply one patch file to a scratch copy of /repo's working tree and run the quick tier of the given checks on it:
    ("ran", {pid: (rc, stdout)}) or ("patch-failed", text)"""
    m, status, res = run_one({"patch": os.path.relpath(patch, VERIF), "caught_by": list(pids)})
    return status, res


def main():
    only = None
    jobs = 4
    a = sys.argv[1:]
    if "--only" in a:
        only = a[a.index("--only") + 1]
    if "--jobs" in a:
        jobs = int(a[a.index("--jobs") + 1])
    ms = [m for m in catalogue() if not only or only in m["patch"] or only in m["caught_by"]]
    missed = 0
    with ThreadPoolExecutor(max_workers=jobs) as ex:
        for m, status, res in ex.map(run_one, ms):
            if status != "ran":
                print("MUTANT %s: %s\n%s" % (m["patch"], status, res))
                missed += 1
                continue
            for pid, (rc, out) in res.items():
                rule = m.get("rule")
                fired = rc == 1 and "VIOLATION property=%s" % pid in out
                named = (not rule) or any(rule in line for line in out.splitlines())
                ok = fired and named
                print("MUTANT %-48s %s: %s%s" % (os.path.basename(m["patch"]), pid, "caught" if ok else "MISSED (rc=%d)" % rc, "" if ok else "\n" + out[-1500:]))
                if not ok:
                    missed += 1
    print("selftest: %d mutants, %d missed" % (len(ms), missed))
    return 2 if missed else 0


if __name__ == "__main__":
    sys.exit(main())
