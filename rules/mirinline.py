"""MIR-level inlining of functions that do not exist on the pinned tree (the companion of canon.inline_helpers).

A private helper extracted from a function carries that function's panic-capable sites out of the context (array types,
constant arguments, dominating guards) in which they were discharged. Splicing the helper's blocks back into each call
site restores that context without changing what is analysed: locals and blocks are renumbered, arguments become
assignments to the callee's parameter locals, `return` becomes an assignment of the return place to the call's
destination followed by a jump to the call's target. Unwind edges are not part of the extracted MIR."""
import copy
import re


def _shift(x, lo, bo):
    """renumber locals by lo and blocks by bo inside a statement / terminator / operand tree"""
    if isinstance(x, dict):
        out = {}
        for k, v in x.items():
            if k == "l" and isinstance(v, int):
                out[k] = v + lo
            elif k == "pr" and isinstance(v, list):
                out[k] = [re.sub(r"_(\d+)", lambda m: "_%d" % (int(m.group(1)) + lo), p) if isinstance(p, str) else p for p in v]
            elif k in ("target", "otherwise") and isinstance(v, int):
                out[k] = v + bo
            elif k == "targets" and isinstance(v, list):
                out[k] = [[a, b + bo] for a, b in v]
            else:
                out[k] = _shift(v, lo, bo)
        return out
    if isinstance(x, list):
        return [_shift(v, lo, bo) for v in x]
    return x


def inline_into(mir, callee, is_call):
    """splice `callee` into every call terminator of `mir` selected by is_call(term); returns the number of sites"""
    n = 0
    i = 0
    while i < len(mir["blocks"]):
        blk = mir["blocks"][i]
        t = blk["term"]
        if t.get("t") == "call" and is_call(t) and len(t.get("args", [])) == callee["argc"] and not blk.get("cleanup"):
            lo, bo = len(mir["locals"]), len(mir["blocks"])
            mir["locals"] = mir["locals"] + list(callee["locals"])
            for nm in callee.get("names", []):
                mir.setdefault("names", []).append(_shift(nm, lo, 0))
            sp = t.get("sp")
            for ai, a in enumerate(t["args"]):
                blk["stmts"].append({"lhs": {"l": lo + 1 + ai}, "r": {"rv": "use", "a": a}, "sp": sp, "inl": "arg"})
            dest, target = t["dest"], t.get("target")
            blk["term"] = {"t": "goto", "target": bo}
            for cb in callee["blocks"]:
                nb = _shift(copy.deepcopy(cb), lo, bo)
                if nb["term"].get("t") == "return":
                    nb["stmts"].append({"lhs": dest, "r": {"rv": "use", "a": {"o": "move", "p": {"l": lo}}}, "sp": sp, "inl": "ret"})
                    nb["term"] = {"t": "goto", "target": target} if target is not None else {"t": "unreachable"}
                mir["blocks"].append(nb)
            n += 1
        i += 1
    return n


def inline_helpers(doc):
    helpers = list((doc.get("_inlined_helpers") or {}).keys())
    if not helpers:
        return {}
    by_path = {}
    for b in doc["bodies"]:
        if b.get("mir"):
            by_path.setdefault(b["path"], []).append(b)
    done = {}
    # innermost helpers first: a helper calling another helper is completed before it is spliced itself
    def calls_of(p):
        out = set()
        for b in by_path.get(p, []):
            for blk in b["mir"]["blocks"]:
                t = blk["term"]
                if t.get("t") == "call":
                    out.add(t.get("resolved") or t.get("fn"))
        return out
    order, seen = [], set()
    pending = list(helpers)
    while pending:
        prog = False
        for h in list(pending):
            if not ((calls_of(h) & set(pending)) - {h}):
                order.append(h)
                pending.remove(h)
                prog = True
        if not prog:
            order += pending
            break
    for h in order:
        hb = by_path.get(h, [])
        if len(hb) != 1:
            continue
        callee = hb[0]["mir"]
        if h in calls_of(h):
            continue
        total = 0
        for p, bs in by_path.items():
            if p == h or p.startswith(h + "::{closure"):
                continue
            for b in bs:
                total += inline_into(b["mir"], callee, lambda t: (t.get("resolved") or t.get("fn")) == h or t.get("fn") == h)
        # the helper as a value (`.map(helper)`) is not inlined: it stays an analysed function of its own
        as_value = any(isinstance(a, dict) and a.get("o") == "const" and a.get("fn") == h for p, bs in by_path.items() for b in bs for blk in b["mir"]["blocks"]
                       for a in (blk["term"].get("args") or []))
        if total and not as_value:
            hb[0]["mir_inlined"] = total
            done[h] = total
    if done:
        doc["_inlined_mir"] = done
    return done
