//! peppi-facts: a rustc_private fact extractor.
//!
//! Runs as RUSTC_WORKSPACE_WRAPPER. For the crate(s) named in PEPPI_FACTS_CRATES
//! (default "peppi") it serialises, after analysis:
//!   * items   (structs, enums, consts, impls, attributes, foreign ADT shapes)
//!   * typed trees (HIR + TypeckResults) for every body owner
//!   * MIR facts (CFG, calls with resolved callees, asserts, switches)
//! into one JSON file under PEPPI_FACTS_DIR. It knows nothing about any property.
#![feature(rustc_private)]

extern crate rustc_abi;
extern crate rustc_ast;
extern crate rustc_driver;
extern crate rustc_hir;
extern crate rustc_interface;
extern crate rustc_middle;
extern crate rustc_session;
extern crate rustc_span;

mod json;
mod mir;
mod tir;

use json::J;
use rustc_driver::{Callbacks, Compilation};
use rustc_hir::def::DefKind;
use rustc_interface::interface::Compiler;
use rustc_middle::ty::{self, TyCtxt};
use rustc_span::def_id::{DefId, LOCAL_CRATE};
use rustc_span::Span;

struct Cb;

pub fn loc(tcx: TyCtxt<'_>, span: Span) -> J {
    // location of the outermost call site (so macro-expanded nodes point at user code)
    let sp = span.source_callsite();
    let sm = tcx.sess.source_map();
    let lo = sm.lookup_char_pos(sp.lo());
    let file = match &lo.file.name {
        rustc_span::FileName::Real(r) => match r.local_path() {
            Some(p) => p.to_string_lossy().to_string(),
            None => format!("{:?}", r),
        },
        other => format!("{:?}", other),
    };
    J::Arr(vec![J::s(file), J::Int(lo.line as i128), J::Int(lo.col.0 as i128 + 1)])
}

pub fn macros(span: Span) -> J {
    if !span.from_expansion() {
        return J::Null;
    }
    let mut v = vec![];
    for e in span.macro_backtrace() {
        match e.kind {
            rustc_span::ExpnKind::Macro(_, name) => v.push(J::s(name.to_string())),
            rustc_span::ExpnKind::Desugaring(d) => v.push(J::s(format!("desugar:{:?}", d))),
            rustc_span::ExpnKind::AstPass(p) => v.push(J::s(format!("astpass:{:?}", p))),
            _ => {}
        }
    }
    if v.is_empty() {
        J::Null
    } else {
        J::Arr(v)
    }
}

pub fn def_path(tcx: TyCtxt<'_>, did: DefId) -> String {
    tcx.def_path_str(did)
}

fn ty_str<'tcx>(t: ty::Ty<'tcx>) -> String {
    format!("{}", t)
}

fn attrs_json(tcx: TyCtxt<'_>, hir_id: rustc_hir::HirId) -> J {
    let mut v = vec![];
    for a in tcx.hir_attrs(hir_id) {
        // Debug rendering carries path + token text for unparsed (tool/helper) attrs
        // and the parsed form for builtin ones.
        let s = format!("{:?}", a);
        v.push(J::s(s));
    }
    if v.is_empty() {
        J::Null
    } else {
        J::Arr(v)
    }
}

fn foreign_adt<'tcx>(tcx: TyCtxt<'tcx>, t: ty::Ty<'tcx>, out: &mut Vec<J>, seen: &mut Vec<DefId>, depth: usize) {
    if depth > 3 {
        return;
    }
    if let ty::Adt(adt, args) = t.kind() {
        for a in args.iter() {
            if let Some(t2) = a.as_type() {
                foreign_adt(tcx, t2, out, seen, depth + 1);
            }
        }
        if adt.did().is_local() || seen.contains(&adt.did()) {
            return;
        }
        let krate = tcx.crate_name(adt.did().krate).to_string();
        if krate != "serde_json" {
            return;
        }
        seen.push(adt.did());
        if adt.is_struct() {
            let mut fields = vec![];
            for f in adt.non_enum_variant().fields.iter() {
                let raw = tcx.type_of(f.did).instantiate(tcx, args);
                let fty = tcx
                    .try_normalize_erasing_regions(ty::TypingEnv::fully_monomorphized(), raw)
                    .unwrap_or_else(|_| tcx.type_of(f.did).instantiate(tcx, args).skip_norm_wip());
                fields.push(J::Obj(vec![("name", J::s(f.name.to_string())), ("ty", J::s(ty_str(fty)))]));
                foreign_adt(tcx, fty, out, seen, depth + 1);
            }
            out.push(J::Obj(vec![
                ("path", J::s(def_path(tcx, adt.did()))),
                ("inst", J::s(ty_str(t))),
                ("fields", J::Arr(fields)),
            ]));
        }
    }
}

/// size in bytes of a non-generic ADT (null when it has generic parameters or no layout)
fn adt_size(tcx: TyCtxt<'_>, did: rustc_span::def_id::DefId) -> J {
    if tcx.generics_of(did).count() != 0 {
        return J::Null;
    }
    let ty = tcx.type_of(did).instantiate_identity().skip_norm_wip();
    let env = rustc_middle::ty::TypingEnv::fully_monomorphized();
    match tcx.layout_of(env.as_query_input(ty)) {
        Ok(l) => J::Int(l.size.bytes() as i128),
        Err(_) => J::Null,
    }
}

fn items(tcx: TyCtxt<'_>) -> J {
    let mut structs = vec![];
    let mut enums = vec![];
    let mut consts = vec![];
    let mut fns = vec![];
    let mut ext = vec![];
    let mut seen = vec![];
    for id in tcx.hir_free_items() {
        let item = tcx.hir_item(id);
        let did = item.owner_id.to_def_id();
        match tcx.def_kind(did) {
            DefKind::Struct => {
                let adt = tcx.adt_def(did);
                let mut fields = vec![];
                for f in adt.non_enum_variant().fields.iter() {
                    let fty = tcx.type_of(f.did).instantiate_identity().skip_norm_wip();
                    foreign_adt(tcx, fty, &mut ext, &mut seen, 0);
                    let hid = tcx.local_def_id_to_hir_id(f.did.expect_local());
                    fields.push(J::Obj(vec![
                        ("name", J::s(f.name.to_string())),
                        ("ty", J::s(ty_str(fty))),
                        ("vis", J::s(format!("{:?}", f.vis))),
                        ("attrs", attrs_json(tcx, hid)),
                    ]));
                }
                structs.push(J::Obj(vec![
                    ("path", J::s(def_path(tcx, did))),
                    ("size", adt_size(tcx, did)),
                    ("loc", loc(tcx, item.span)),
                    ("vis", J::s(format!("{:?}", tcx.visibility(did)))),
                    ("tuple", J::Bool(adt.non_enum_variant().ctor_kind() == Some(rustc_hir::def::CtorKind::Fn))),
                    ("attrs", attrs_json(tcx, item.hir_id())),
                    ("fields", J::Arr(fields)),
                ]));
            }
            DefKind::Enum => {
                let adt = tcx.adt_def(did);
                let mut vars = vec![];
                for (idx, discr) in adt.discriminants(tcx) {
                    let v = adt.variant(idx);
                    vars.push(J::Obj(vec![
                        ("name", J::s(v.name.to_string())),
                        ("discr", J::Int(discr.val as i128)),
                        ("nfields", J::Int(v.fields.len() as i128)),
                    ]));
                }
                enums.push(J::Obj(vec![
                    ("path", J::s(def_path(tcx, did))),
                    ("size", adt_size(tcx, did)),
                    ("loc", loc(tcx, item.span)),
                    ("repr", J::s(format!("{:?}", adt.repr().int))),
                    ("attrs", attrs_json(tcx, item.hir_id())),
                    ("variants", J::Arr(vars)),
                ]));
            }
            DefKind::Const { .. } | DefKind::Static { .. } => {
                let cty = tcx.type_of(did).instantiate_identity().skip_norm_wip();
                consts.push(J::Obj(vec![
                    ("path", J::s(def_path(tcx, did))),
                    ("ty", J::s(ty_str(cty))),
                    ("vis", J::s(format!("{:?}", tcx.visibility(did)))),
                    ("loc", loc(tcx, item.span)),
                ]));
            }
            _ => {}
        }
    }
    // all fn-like defs with visibility / signature
    for ldid in tcx.hir_body_owners() {
        let did = ldid.to_def_id();
        let kind = tcx.def_kind(did);
        if matches!(kind, DefKind::Fn | DefKind::AssocFn) {
            let sig = tcx.fn_sig(did).instantiate_identity().skip_norm_wip();
            let sig = sig.skip_binder();
            fns.push(J::Obj(vec![
                ("path", J::s(def_path(tcx, did))),
                ("vis", J::s(format!("{:?}", tcx.visibility(did)))),
                ("inputs", J::Arr(sig.inputs().iter().map(|t| J::s(ty_str(*t))).collect())),
                ("output", J::s(ty_str(sig.output()))),
                ("generics", J::Arr(tcx.generics_of(did).own_params.iter().filter(|p| matches!(p.kind, rustc_middle::ty::GenericParamDefKind::Type { .. })).map(|p| J::s(p.name.to_string())).collect())),
                ("loc", loc(tcx, tcx.def_span(did))),
            ]));
        }
    }
    // trait impls
    let mut impls = vec![];
    for (trait_did, impl_ids) in tcx.all_local_trait_impls(()).iter() {
        for ldid in impl_ids.iter() {
            let did = ldid.to_def_id();
            let self_ty = tcx.type_of(did).instantiate_identity().skip_norm_wip();
            let derived = tcx.is_automatically_derived(did);
            let mut methods = vec![];
            for it in tcx.associated_items(did).in_definition_order() {
                methods.push(J::s(it.name().to_string()));
            }
            impls.push(J::Obj(vec![
                ("trait", J::s(def_path(tcx, *trait_did))),
                ("self", J::s(ty_str(self_ty))),
                ("derived", J::Bool(derived)),
                ("items", J::Arr(methods)),
                ("loc", loc(tcx, tcx.def_span(did))),
            ]));
        }
    }
    J::Obj(vec![
        ("structs", J::Arr(structs)),
        ("enums", J::Arr(enums)),
        ("consts", J::Arr(consts)),
        ("fns", J::Arr(fns)),
        ("impls", J::Arr(impls)),
        ("ext_adts", J::Arr(ext)),
    ])
}

impl Callbacks for Cb {
    fn after_analysis<'tcx>(&mut self, _c: &Compiler, tcx: TyCtxt<'tcx>) -> Compilation {
        let name = tcx.crate_name(LOCAL_CRATE).to_string();
        let want = std::env::var("PEPPI_FACTS_CRATES").unwrap_or_else(|_| "peppi".to_string());
        if !want.split(',').any(|w| w == name) {
            return Compilation::Continue;
        }
        let dir = match std::env::var("PEPPI_FACTS_DIR") {
            Ok(d) => d,
            Err(_) => return Compilation::Continue,
        };
        let doc = rustc_middle::ty::print::with_no_trimmed_paths!({
            let items = items(tcx);
            let mut bodies = vec![];
            for ldid in tcx.hir_body_owners() {
                let did = ldid.to_def_id();
                let kind = tcx.def_kind(did);
                // closures are rendered inline in their parent's tree; they get MIR entries only
                let is_closure = matches!(kind, DefKind::Closure);
                let tree = if is_closure { J::Null } else { tir::body(tcx, ldid) };
                let mir = if matches!(kind, DefKind::Fn | DefKind::AssocFn | DefKind::Closure) {
                    mir::body(tcx, ldid)
                } else {
                    J::Null
                };
                bodies.push(J::Obj(vec![
                    ("path", J::s(def_path(tcx, did))),
                    ("kind", J::s(format!("{:?}", kind))),
                    ("loc", loc(tcx, tcx.def_span(did))),
                    ("tir", tree),
                    ("mir", mir),
                ]));
            }
            let is_lib = tcx.crate_types().iter().any(|t| matches!(t, rustc_session::config::CrateType::Rlib | rustc_session::config::CrateType::Dylib));
            J::Obj(vec![
                ("crate", J::s(name.clone())),
                ("is_lib", J::Bool(is_lib)),
                ("is_test", J::Bool(tcx.sess.is_test_crate())),
                ("rustc", J::s(option_env!("CFG_VERSION").unwrap_or("nightly").to_string())),
                ("items", items),
                ("bodies", J::Arr(bodies)),
            ])
        });
        let mut s = String::new();
        doc.write(&mut s);
        let id = tcx.stable_crate_id(LOCAL_CRATE).as_u64();
        let path = format!("{}/{}.{:016x}.json", dir, name, id);
        let tmp = format!("{}.tmp{}", path, std::process::id());
        std::fs::write(&tmp, s).expect("write facts");
        std::fs::rename(&tmp, &path).expect("rename facts");
        Compilation::Continue
    }
}

fn main() {
    let mut args: Vec<String> = std::env::args().collect();
    // RUSTC_WORKSPACE_WRAPPER passes the real rustc path as argv[1]
    if args.len() > 1 && (args[1].ends_with("rustc") || args[1].contains("/rustc")) {
        args.remove(1);
    }
    let mut cb = Cb;
    rustc_driver::run_compiler(&args, &mut cb);
}
