//! MIR facts: CFG, calls (resolved), asserts, switches, simplified statements.

use crate::json::J;
use crate::{def_path, loc, macros};
use rustc_middle::mir::{self, Operand, Place, Rvalue, StatementKind, TerminatorKind};
use rustc_middle::ty::{self, TyCtxt};
use rustc_span::def_id::LocalDefId;

fn place(p: &Place<'_>) -> J {
    let mut v = vec![("l", J::Int(p.local.as_u32() as i128))];
    if !p.projection.is_empty() {
        let pr: Vec<J> = p
            .projection
            .iter()
            .map(|e| match e {
                mir::ProjectionElem::Deref => J::s("*"),
                mir::ProjectionElem::Field(f, _) => J::s(format!(".{}", f.as_u32())),
                mir::ProjectionElem::Index(l) => J::s(format!("[_{}]", l.as_u32())),
                mir::ProjectionElem::ConstantIndex { offset, from_end, .. } => J::s(format!("[c{}{}]", if from_end { "-" } else { "" }, offset)),
                mir::ProjectionElem::Subslice { from, to, from_end } => J::s(format!("[{}..{}{}]", from, if from_end { "-" } else { "" }, to)),
                mir::ProjectionElem::Downcast(name, idx) => J::s(format!("as {}#{}", name.map_or(String::new(), |n| n.to_string()), idx.as_u32())),
                other => J::s(format!("{:?}", other)),
            })
            .collect();
        v.push(("pr", J::Arr(pr)));
    }
    J::Obj(v)
}

fn operand<'tcx>(tcx: TyCtxt<'tcx>, owner: LocalDefId, o: &Operand<'tcx>) -> J {
    match o {
        Operand::Copy(p) | Operand::Move(p) => {
            let kind = if matches!(o, Operand::Copy(_)) { "copy" } else { "move" };
            let mut v = vec![("o", J::s(kind)), ("p", place(p))];
            if !p.projection.is_empty() {
                let body = tcx.optimized_mir(owner.to_def_id());
                let t = p.ty(&body.local_decls, tcx).ty;
                v.push(("ty", J::s(format!("{}", t))));
            }
            J::Obj(v)
        }
        Operand::Constant(c) => {
            let t = c.const_.ty();
            let mut v = vec![("o", J::s("const")), ("ty", J::s(format!("{}", t)))];
            if let ty::FnDef(did, args) = t.kind() {
                v.push(("fn", J::s(def_path(tcx, *did))));
                v.push(("gargs", J::Arr(args.iter().map(|a| J::s(format!("{}", a))).collect())));
            } else {
                let env = ty::TypingEnv::post_analysis(tcx, owner.to_def_id());
                let r = std::panic::catch_unwind(std::panic::AssertUnwindSafe(|| {
                    c.const_.try_eval_scalar_int(tcx, env).map(|s| {
                        let size = s.size();
                        let bits = s.to_bits(size);
                        (bits, size.bytes())
                    })
                }));
                if let Ok(Some((bits, bytes))) = r {
                    v.push(("bits", J::Int(bits as i128)));
                    v.push(("bytes", J::Int(bytes as i128)));
                } else {
                    v.push(("dbg", J::s(format!("{:?}", c.const_))));
                }
            }
            J::Obj(v)
        }
        #[allow(unreachable_patterns)]
        _ => J::Obj(vec![("o", J::s("other")), ("dbg", J::s(format!("{:?}", o)))]),
    }
}

fn rvalue<'tcx>(tcx: TyCtxt<'tcx>, owner: LocalDefId, rv: &Rvalue<'tcx>) -> J {
    let op = |o: &Operand<'tcx>| operand(tcx, owner, o);
    match rv {
        Rvalue::Use(o, ..) => J::Obj(vec![("rv", J::s("use")), ("a", op(o))]),
        Rvalue::Repeat(o, _) => J::Obj(vec![("rv", J::s("repeat")), ("a", op(o))]),
        Rvalue::Ref(_, bk, p) => J::Obj(vec![("rv", J::s("ref")), ("mut", J::Bool(matches!(bk, mir::BorrowKind::Mut { .. }))), ("p", place(p))]),
        Rvalue::RawPtr(_, p) => J::Obj(vec![("rv", J::s("rawptr")), ("p", place(p))]),
        Rvalue::Cast(kind, o, t) => J::Obj(vec![("rv", J::s("cast")), ("kind", J::s(format!("{:?}", kind))), ("a", op(o)), ("to", J::s(format!("{}", t)))]),
        Rvalue::BinaryOp(bop, ab) => J::Obj(vec![("rv", J::s("bin")), ("op", J::s(format!("{:?}", bop))), ("a", op(&ab.0)), ("b", op(&ab.1))]),
        Rvalue::UnaryOp(uop, o) => J::Obj(vec![("rv", J::s("un")), ("op", J::s(format!("{:?}", uop))), ("a", op(o))]),
        Rvalue::Discriminant(p) => {
            let body = tcx.optimized_mir(owner.to_def_id());
            let t = p.ty(&body.local_decls, tcx).ty;
            J::Obj(vec![("rv", J::s("discr")), ("p", place(p)), ("ty", J::s(format!("{}", t)))])
        }
        Rvalue::Aggregate(kind, ops) => {
            let k = match &**kind {
                mir::AggregateKind::Adt(did, variant, ..) => format!("adt:{}#{}", def_path(tcx, *did), variant.as_u32()),
                mir::AggregateKind::Closure(did, _) => format!("closure:{}", def_path(tcx, *did)),
                other => format!("{:?}", std::mem::discriminant(other)),
            };
            J::Obj(vec![("rv", J::s("agg")), ("kind", J::s(k)), ("ops", J::Arr(ops.iter().map(|o| op(o)).collect()))])
        }
        Rvalue::CopyForDeref(p) => J::Obj(vec![("rv", J::s("use")), ("a", J::Obj(vec![("o", J::s("copy")), ("p", place(p))]))]),
        other => J::Obj(vec![("rv", J::s("other")), ("dbg", J::s(format!("{:?}", other)))]),
    }
}

pub fn body(tcx: TyCtxt<'_>, ldid: LocalDefId) -> J {
    let did = ldid.to_def_id();
    if !tcx.is_mir_available(did) {
        return J::Null;
    }
    let body = tcx.optimized_mir(did);
    let env = ty::TypingEnv::post_analysis(tcx, did);
    let mut locals = vec![];
    for (_, d) in body.local_decls.iter_enumerated() {
        locals.push(J::s(format!("{}", d.ty)));
    }
    let mut names = vec![];
    for vdi in body.var_debug_info.iter() {
        if let mir::VarDebugInfoContents::Place(p) = &vdi.value {
            names.push(J::Obj(vec![("name", J::s(vdi.name.to_string())), ("p", place(p))]));
        }
    }
    let mut blocks = vec![];
    for (_bb, data) in body.basic_blocks.iter_enumerated() {
        let mut stmts = vec![];
        for s in data.statements.iter() {
            if let StatementKind::Assign(b) = &s.kind {
                let (p, rv) = &**b;
                stmts.push(J::Obj(vec![("lhs", place(p)), ("r", rvalue(tcx, ldid, rv)), ("sp", loc(tcx, s.source_info.span)), ("mac", macros(s.source_info.span))]));
            }
        }
        let term = data.terminator();
        let sp = term.source_info.span;
        let t = match &term.kind {
            TerminatorKind::Goto { target } => J::Obj(vec![("t", J::s("goto")), ("target", J::Int(target.as_u32() as i128))]),
            TerminatorKind::SwitchInt { discr, targets } => {
                let mut tv = vec![];
                for (v, bb) in targets.iter() {
                    tv.push(J::Arr(vec![J::Int(v as i128), J::Int(bb.as_u32() as i128)]));
                }
                J::Obj(vec![
                    ("t", J::s("switch")),
                    ("discr", operand(tcx, ldid, discr)),
                    ("targets", J::Arr(tv)),
                    ("otherwise", J::Int(targets.otherwise().as_u32() as i128)),
                    ("sp", loc(tcx, sp)),
                ])
            }
            TerminatorKind::Return => J::Obj(vec![("t", J::s("return"))]),
            TerminatorKind::Unreachable => J::Obj(vec![("t", J::s("unreachable"))]),
            TerminatorKind::UnwindResume => J::Obj(vec![("t", J::s("resume"))]),
            TerminatorKind::UnwindTerminate(_) => J::Obj(vec![("t", J::s("terminate"))]),
            TerminatorKind::Drop { place: p, target, .. } => J::Obj(vec![("t", J::s("drop")), ("p", place(p)), ("target", J::Int(target.as_u32() as i128))]),
            TerminatorKind::Call { func, args, destination, target, fn_span, .. } => {
                let mut v = vec![("t", J::s("call"))];
                let fty = func.ty(&body.local_decls, tcx);
                if let ty::FnDef(cdid, cargs) = fty.kind() {
                    v.push(("fn", J::s(def_path(tcx, *cdid))));
                    v.push(("gargs", J::Arr(cargs.iter().map(|a| J::s(format!("{}", a))).collect())));
                    v.push(("local", J::Bool(cdid.is_local())));
                    let r = std::panic::catch_unwind(std::panic::AssertUnwindSafe(|| ty::Instance::try_resolve(tcx, env, *cdid, cargs)));
                    if let Ok(Ok(Some(inst))) = r {
                        let rd = inst.def_id();
                        if rd != *cdid {
                            v.push(("resolved", J::s(def_path(tcx, rd))));
                            v.push(("resolved_local", J::Bool(rd.is_local())));
                        }
                        if let ty::InstanceKind::Virtual(..) = inst.def {
                            v.push(("virtual", J::Bool(true)));
                        }
                    } else {
                        v.push(("unresolved", J::Bool(true)));
                    }
                } else {
                    v.push(("indirect", J::s(format!("{}", fty))));
                    v.push(("f", operand(tcx, ldid, func)));
                }
                v.push(("args", J::Arr(args.iter().map(|a| operand(tcx, ldid, &a.node)).collect())));
                v.push(("dest", place(destination)));
                v.push(("target", target.map_or(J::Null, |b| J::Int(b.as_u32() as i128))));
                v.push(("sp", loc(tcx, *fn_span)));
                v.push(("esp", loc(tcx, sp)));
                v.push(("mac", macros(sp)));
                J::Obj(v)
            }
            TerminatorKind::Assert { cond, expected, msg, target, .. } => {
                let kind = match &**msg {
                    mir::AssertKind::BoundsCheck { .. } => "bounds".to_string(),
                    mir::AssertKind::Overflow(op, ..) => format!("overflow:{:?}", op),
                    mir::AssertKind::OverflowNeg(_) => "overflow:Neg".to_string(),
                    mir::AssertKind::DivisionByZero(_) => "div_zero".to_string(),
                    mir::AssertKind::RemainderByZero(_) => "rem_zero".to_string(),
                    mir::AssertKind::MisalignedPointerDereference { .. } => "ub_check:misaligned_ptr".to_string(),
                    mir::AssertKind::NullPointerDereference => "ub_check:null_ptr".to_string(),
                    mir::AssertKind::InvalidEnumConstruction(_) => "ub_check:invalid_enum".to_string(),
                    other => format!("other:{:?}", std::mem::discriminant(other)),
                };
                let mut v = vec![
                    ("t", J::s("assert")),
                    ("kind", J::s(kind)),
                    ("cond", operand(tcx, ldid, cond)),
                    ("expected", J::Bool(*expected)),
                    ("target", J::Int(target.as_u32() as i128)),
                    ("sp", loc(tcx, sp)),
                    ("mac", macros(sp)),
                ];
                match &**msg {
                    mir::AssertKind::BoundsCheck { len, index } => {
                        v.push(("len", operand(tcx, ldid, len)));
                        v.push(("index", operand(tcx, ldid, index)));
                    }
                    mir::AssertKind::Overflow(_, a, b) => {
                        v.push(("a", operand(tcx, ldid, a)));
                        v.push(("b", operand(tcx, ldid, b)));
                    }
                    _ => {}
                }
                J::Obj(v)
            }
            other => J::Obj(vec![("t", J::s("other")), ("dbg", J::s(format!("{:?}", std::mem::discriminant(other))))]),
        };
        blocks.push(J::Obj(vec![("cleanup", J::Bool(data.is_cleanup)), ("stmts", J::Arr(stmts)), ("term", t)]));
    }
    J::Obj(vec![("argc", J::Int(body.arg_count as i128)), ("locals", J::Arr(locals)), ("names", J::Arr(names)), ("blocks", J::Arr(blocks))])
}
