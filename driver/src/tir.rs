//! Typed trees: HIR bodies rendered with TypeckResults applied.

use crate::json::J;
use crate::{def_path, loc, macros};
use rustc_hir as hir;
use rustc_hir::def::{DefKind, Res};
use rustc_hir::{Expr, ExprKind, Pat, PatKind, QPath, StmtKind};
use rustc_middle::ty::{self, TyCtxt, TypeckResults};
use rustc_span::def_id::{DefId, LocalDefId};

struct Cx<'tcx> {
    tcx: TyCtxt<'tcx>,
    tr: &'tcx TypeckResults<'tcx>,
    owner: LocalDefId,
}

pub fn body(tcx: TyCtxt<'_>, ldid: LocalDefId) -> J {
    let tr = tcx.typeck(ldid);
    let body = tcx.hir_body_owned_by(ldid);
    let cx = Cx { tcx, tr, owner: ldid };
    let params: Vec<J> = body.params.iter().map(|p| cx.pat(p.pat)).collect();
    J::Obj(vec![("params", J::Arr(params)), ("value", cx.expr(body.value))])
}

impl<'tcx> Cx<'tcx> {
    fn ty_of(&self, e: &Expr<'_>) -> J {
        match self.tr.expr_ty_opt(e) {
            Some(t) => J::s(format!("{}", t)),
            None => J::Null,
        }
    }

    fn ty_adj(&self, e: &Expr<'_>) -> J {
        // type after adjustments (autoref/deref), only when it differs
        let a = self.tr.expr_ty_opt(e);
        let b = self.tr.expr_ty_adjusted_opt(e);
        match (a, b) {
            (Some(a), Some(b)) if a != b => J::s(format!("{}", b)),
            _ => J::Null,
        }
    }

    fn node(&self, k: &'static str, e: &Expr<'_>, mut rest: Vec<(&'static str, J)>) -> J {
        let mut v = vec![("k", J::s(k)), ("ty", self.ty_of(e)), ("aty", self.ty_adj(e)), ("sp", loc(self.tcx, e.span)), ("mac", macros(e.span))];
        v.append(&mut rest);
        J::Obj(v)
    }

    fn args_json(&self, args: ty::GenericArgsRef<'tcx>) -> J {
        let v: Vec<J> = args.iter().map(|a| J::s(format!("{}", a))).collect();
        if v.is_empty() {
            J::Null
        } else {
            J::Arr(v)
        }
    }

    /// Resolve a (possibly trait) callee to the concrete instance when possible.
    fn resolved(&self, did: DefId, args: ty::GenericArgsRef<'tcx>) -> J {
        let tcx = self.tcx;
        if !matches!(tcx.def_kind(did), DefKind::Fn | DefKind::AssocFn) {
            return J::Null;
        }
        let env = ty::TypingEnv::post_analysis(tcx, self.owner.to_def_id());
        let r = std::panic::catch_unwind(std::panic::AssertUnwindSafe(|| ty::Instance::try_resolve(tcx, env, did, args)));
        match r {
            Ok(Ok(Some(inst))) => {
                let rd = inst.def_id();
                if rd != did {
                    J::s(def_path(tcx, rd))
                } else {
                    J::Null
                }
            }
            _ => J::Null,
        }
    }

    fn res_json(&self, res: Res, hir_id: hir::HirId) -> Vec<(&'static str, J)> {
        match res {
            Res::Local(id) => {
                let name = self.tcx.hir_name(id).to_string();
                vec![("res", J::s("local")), ("name", J::s(name)), ("id", J::Int(id.local_id.as_u32() as i128))]
            }
            Res::Def(kind, did) => {
                let args = self.tr.node_args(hir_id);
                let mut v = vec![
                    ("res", J::s("def")),
                    ("dk", J::s(format!("{:?}", kind))),
                    ("path", J::s(def_path(self.tcx, did))),
                    ("gargs", self.args_json(args)),
                    ("local", J::Bool(did.is_local())),
                ];
                v.push(("resolved", self.resolved(did, args)));
                // enum variant constructors: record discriminant index
                if let DefKind::Ctor(..) | DefKind::Variant = kind {
                    // nothing extra; path carries the variant name
                }
                v
            }
            Res::SelfCtor(did) => vec![("res", J::s("selfctor")), ("path", J::s(def_path(self.tcx, did)))],
            other => vec![("res", J::s(format!("{:?}", other)))],
        }
    }

    fn qpath(&self, qp: &QPath<'_>, hir_id: hir::HirId) -> Vec<(&'static str, J)> {
        let res = self.tr.qpath_res(qp, hir_id);
        self.res_json(res, hir_id)
    }

    fn lit(&self, l: &hir::Lit) -> Vec<(&'static str, J)> {
        use rustc_ast::LitKind;
        match &l.node {
            LitKind::Str(s, _) => vec![("lit", J::s("str")), ("v", J::s(s.to_string()))],
            LitKind::ByteStr(b, _) => vec![("lit", J::s("bytes")), ("v", J::Arr(b.as_byte_str().iter().map(|x| J::Int(*x as i128)).collect()))],
            LitKind::CStr(b, _) => vec![("lit", J::s("cstr")), ("v", J::Arr(b.as_byte_str().iter().map(|x| J::Int(*x as i128)).collect()))],
            LitKind::Byte(b) => vec![("lit", J::s("int")), ("v", J::Int(*b as i128))],
            LitKind::Char(c) => vec![("lit", J::s("char")), ("v", J::Int(*c as u32 as i128))],
            LitKind::Int(i, _) => vec![("lit", J::s("int")), ("v", J::Int(i.get() as i128))],
            LitKind::Float(s, _) => vec![("lit", J::s("float")), ("v", J::s(s.to_string()))],
            LitKind::Bool(b) => vec![("lit", J::s("bool")), ("v", J::Bool(*b))],
            LitKind::Err(_) => vec![("lit", J::s("err"))],
        }
    }

    fn block(&self, b: &hir::Block<'_>) -> (Vec<J>, J) {
        let mut stmts = vec![];
        for s in b.stmts {
            match s.kind {
                StmtKind::Let(l) => {
                    stmts.push(J::Obj(vec![
                        ("k", J::s("Let")),
                        ("sp", loc(self.tcx, s.span)),
                        ("mac", macros(s.span)),
                        ("pat", self.pat(l.pat)),
                        ("init", l.init.map_or(J::Null, |e| self.expr(e))),
                        ("els", l.els.map_or(J::Null, |b| self.block_expr(b))),
                    ]));
                }
                StmtKind::Item(_) => {}
                StmtKind::Expr(e) => stmts.push(J::Obj(vec![("k", J::s("Expr")), ("e", self.expr(e)), ("semi", J::Bool(false))])),
                StmtKind::Semi(e) => stmts.push(J::Obj(vec![("k", J::s("Expr")), ("e", self.expr(e)), ("semi", J::Bool(true))])),
            }
        }
        let tail = b.expr.map_or(J::Null, |e| self.expr(e));
        (stmts, tail)
    }

    fn block_expr(&self, b: &hir::Block<'_>) -> J {
        let (stmts, tail) = self.block(b);
        J::Obj(vec![("k", J::s("Block")), ("sp", loc(self.tcx, b.span)), ("stmts", J::Arr(stmts)), ("tail", tail)])
    }

    pub fn pat(&self, p: &Pat<'_>) -> J {
        let ty = match self.tr.node_type_opt(p.hir_id) {
            Some(t) => J::s(format!("{}", t)),
            None => J::Null,
        };
        let mut v: Vec<(&'static str, J)> = vec![];
        let k = match &p.kind {
            PatKind::Wild => "Wild",
            PatKind::Missing => "Wild",
            PatKind::Binding(mode, id, ident, sub) => {
                v.push(("name", J::s(ident.name.to_string())));
                v.push(("id", J::Int(id.local_id.as_u32() as i128)));
                v.push(("mode", J::s(format!("{:?}", mode))));
                if let Some(s) = sub {
                    v.push(("sub", self.pat(s)));
                }
                "Bind"
            }
            PatKind::Struct(qp, fields, _) => {
                v.extend(self.qpath(qp, p.hir_id));
                v.push(("fields", J::Arr(fields.iter().map(|f| J::Obj(vec![("name", J::s(f.ident.name.to_string())), ("pat", self.pat(f.pat))])).collect())));
                "Struct"
            }
            PatKind::TupleStruct(qp, pats, ddpos) => {
                v.extend(self.qpath(qp, p.hir_id));
                v.push(("pats", J::Arr(pats.iter().map(|x| self.pat(x)).collect())));
                v.push(("dd", ddpos.as_opt_usize().map_or(J::Null, |x| J::Int(x as i128))));
                "TupleStruct"
            }
            PatKind::Or(pats) => {
                v.push(("pats", J::Arr(pats.iter().map(|x| self.pat(x)).collect())));
                "Or"
            }
            PatKind::Never => "Never",
            PatKind::Tuple(pats, ddpos) => {
                v.push(("pats", J::Arr(pats.iter().map(|x| self.pat(x)).collect())));
                v.push(("dd", ddpos.as_opt_usize().map_or(J::Null, |x| J::Int(x as i128))));
                "Tuple"
            }
            PatKind::Box(x) => {
                v.push(("pat", self.pat(x)));
                "Box"
            }
            PatKind::Deref(x) => {
                v.push(("pat", self.pat(x)));
                "Deref"
            }
            PatKind::Ref(x, ..) => {
                v.push(("pat", self.pat(x)));
                "Ref"
            }
            PatKind::Expr(e) => {
                v.push(("e", self.pat_expr(e)));
                "Lit"
            }
            PatKind::Guard(x, g) => {
                v.push(("pat", self.pat(x)));
                v.push(("guard", self.expr(g)));
                "Guard"
            }
            PatKind::Range(lo, hi, end) => {
                v.push(("lo", lo.map_or(J::Null, |e| self.pat_expr(e))));
                v.push(("hi", hi.map_or(J::Null, |e| self.pat_expr(e))));
                v.push(("end", J::s(format!("{:?}", end))));
                "Range"
            }
            PatKind::Slice(a, mid, b) => {
                v.push(("before", J::Arr(a.iter().map(|x| self.pat(x)).collect())));
                v.push(("mid", mid.map_or(J::Null, |x| self.pat(x))));
                v.push(("after", J::Arr(b.iter().map(|x| self.pat(x)).collect())));
                "Slice"
            }
            PatKind::Err(_) => "Err",
        };
        let mut o = vec![("k", J::s(k)), ("ty", ty), ("sp", loc(self.tcx, p.span))];
        o.append(&mut v);
        J::Obj(o)
    }

    fn pat_expr(&self, e: &hir::PatExpr<'_>) -> J {
        match &e.kind {
            hir::PatExprKind::Lit { lit, negated } => {
                let mut v = vec![("k", J::s("Lit")), ("neg", J::Bool(*negated))];
                v.extend(self.lit(lit));
                J::Obj(v)
            }
            hir::PatExprKind::Path(qp) => {
                let mut v = vec![("k", J::s("Path"))];
                v.extend(self.qpath(qp, e.hir_id));
                J::Obj(v)
            }
        }
    }

    fn is_lang_path(&self, e: &Expr<'_>, item: hir::LangItem) -> bool {
        if let ExprKind::Path(qp) = &e.kind {
            if let Res::Def(_, did) = self.tr.qpath_res(qp, e.hir_id) {
                return self.tcx.lang_items().get(item) == Some(did);
            }
        }
        false
    }

    pub fn expr(&self, e: &Expr<'_>) -> J {
        match &e.kind {
            ExprKind::Call(f, args) => {
                let a: Vec<J> = args.iter().map(|x| self.expr(x)).collect();
                let mut rest = vec![];
                if let ExprKind::Path(qp) = &f.kind {
                    rest.extend(self.qpath(qp, f.hir_id));
                    rest.push(("fty", self.ty_of(f)));
                } else {
                    rest.push(("f", self.expr(f)));
                }
                rest.push(("args", J::Arr(a)));
                self.node("Call", e, rest)
            }
            ExprKind::MethodCall(seg, recv, args, _) => {
                let a: Vec<J> = args.iter().map(|x| self.expr(x)).collect();
                let mut rest = vec![("method", J::s(seg.ident.name.to_string()))];
                if let Some(did) = self.tr.type_dependent_def_id(e.hir_id) {
                    let ga = self.tr.node_args(e.hir_id);
                    rest.push(("path", J::s(def_path(self.tcx, did))));
                    rest.push(("gargs", self.args_json(ga)));
                    rest.push(("local", J::Bool(did.is_local())));
                    rest.push(("resolved", self.resolved(did, ga)));
                }
                rest.push(("recv", self.expr(recv)));
                rest.push(("args", J::Arr(a)));
                self.node("MethodCall", e, rest)
            }
            ExprKind::Path(qp) => {
                let rest = self.qpath(qp, e.hir_id);
                self.node("Path", e, rest)
            }
            ExprKind::Lit(l) => {
                let rest = self.lit(l);
                self.node("Lit", e, rest)
            }
            ExprKind::Field(base, ident) => {
                let idx = self.tr.opt_field_index(e.hir_id).map_or(J::Null, |i| J::Int(i.as_u32() as i128));
                self.node("Field", e, vec![("name", J::s(ident.name.to_string())), ("idx", idx), ("base", self.expr(base))])
            }
            ExprKind::Index(base, idx, _) => {
                let overloaded = self.tr.is_method_call(e);
                self.node("Index", e, vec![("base", self.expr(base)), ("index", self.expr(idx)), ("overloaded", J::Bool(overloaded))])
            }
            ExprKind::Unary(op, x) => {
                let overloaded = self.tr.is_method_call(e);
                self.node("Unary", e, vec![("op", J::s(format!("{:?}", op))), ("e", self.expr(x)), ("overloaded", J::Bool(overloaded))])
            }
            ExprKind::Binary(op, l, r) => {
                let overloaded = self.tr.is_method_call(e);
                let mut rest = vec![("op", J::s(format!("{:?}", op.node))), ("l", self.expr(l)), ("r", self.expr(r)), ("overloaded", J::Bool(overloaded))];
                if overloaded {
                    if let Some(did) = self.tr.type_dependent_def_id(e.hir_id) {
                        let ga = self.tr.node_args(e.hir_id);
                        rest.push(("path", J::s(def_path(self.tcx, did))));
                        rest.push(("resolved", self.resolved(did, ga)));
                    }
                }
                self.node("Binary", e, rest)
            }
            ExprKind::Cast(x, _) => self.node("Cast", e, vec![("e", self.expr(x))]),
            ExprKind::Type(x, _) => self.expr(x),
            ExprKind::DropTemps(x) => self.expr(x),
            ExprKind::Use(x, _) => self.expr(x),
            ExprKind::AddrOf(_, m, x) => self.node("AddrOf", e, vec![("mut", J::Bool(m.is_mut())), ("e", self.expr(x))]),
            ExprKind::Assign(l, r, _) => self.node("Assign", e, vec![("l", self.expr(l)), ("r", self.expr(r))]),
            ExprKind::AssignOp(op, l, r) => {
                let overloaded = self.tr.is_method_call(e);
                self.node("AssignOp", e, vec![("op", J::s(format!("{:?}", op.node))), ("l", self.expr(l)), ("r", self.expr(r)), ("overloaded", J::Bool(overloaded))])
            }
            ExprKind::Tup(xs) => self.node("Tup", e, vec![("elems", J::Arr(xs.iter().map(|x| self.expr(x)).collect()))]),
            ExprKind::Array(xs) => self.node("Array", e, vec![("elems", J::Arr(xs.iter().map(|x| self.expr(x)).collect()))]),
            ExprKind::Repeat(x, _) => self.node("Repeat", e, vec![("e", self.expr(x))]),
            ExprKind::Let(l) => self.node("LetCond", e, vec![("pat", self.pat(l.pat)), ("init", self.expr(l.init))]),
            ExprKind::If(c, t, f) => self.node("If", e, vec![("cond", self.expr(c)), ("then", self.expr(t)), ("else", f.map_or(J::Null, |x| self.expr(x)))]),
            ExprKind::Block(b, label) => {
                let (stmts, tail) = self.block(b);
                self.node("Block", e, vec![("label", label.map_or(J::Null, |l| J::s(l.ident.name.to_string()))), ("stmts", J::Arr(stmts)), ("tail", tail)])
            }
            ExprKind::Loop(b, label, src, _) => {
                let label = label.map_or(J::Null, |l| J::s(l.ident.name.to_string()));
                self.node("Loop", e, vec![("src", J::s(format!("{:?}", src))), ("label", label), ("body", self.block_expr(b))])
            }
            ExprKind::Match(scrut, arms, src) => {
                // fold `?`
                if let hir::MatchSource::TryDesugar(_) = src {
                    if let ExprKind::Call(f, [inner]) = &scrut.kind {
                        if self.is_lang_path(f, hir::LangItem::TryTraitBranch) {
                            return self.node("Try", e, vec![("e", self.expr(inner))]);
                        }
                    }
                }
                // fold `for`
                if let hir::MatchSource::ForLoopDesugar = src {
                    if let Some(j) = self.fold_for(e, scrut, arms) {
                        return j;
                    }
                }
                let a: Vec<J> = arms
                    .iter()
                    .map(|arm| {
                        J::Obj(vec![
                            ("pat", self.pat(arm.pat)),
                            ("guard", arm.guard.map_or(J::Null, |g| self.expr(g))),
                            ("body", self.expr(arm.body)),
                            ("sp", loc(self.tcx, arm.span)),
                        ])
                    })
                    .collect();
                self.node("Match", e, vec![("src", J::s(format!("{:?}", src))), ("scrut", self.expr(scrut)), ("arms", J::Arr(a))])
            }
            ExprKind::Closure(c) => {
                let body = self.tcx.hir_body(c.body);
                let params: Vec<J> = body.params.iter().map(|p| self.pat(p.pat)).collect();
                self.node(
                    "Closure",
                    e,
                    vec![("def", J::s(def_path(self.tcx, c.def_id.to_def_id()))), ("params", J::Arr(params)), ("body", self.expr(body.value))],
                )
            }
            ExprKind::Break(dest, x) => {
                let label = dest.label.map_or(J::Null, |l| J::s(l.ident.name.to_string()));
                self.node("Break", e, vec![("label", label), ("e", x.map_or(J::Null, |x| self.expr(x)))])
            }
            ExprKind::Continue(dest) => {
                let label = dest.label.map_or(J::Null, |l| J::s(l.ident.name.to_string()));
                self.node("Continue", e, vec![("label", label)])
            }
            ExprKind::Ret(x) => self.node("Ret", e, vec![("e", x.map_or(J::Null, |x| self.expr(x)))]),
            ExprKind::Struct(qp, fields, base) => {
                let mut rest = self.qpath(qp, e.hir_id);
                rest.push((
                    "fields",
                    J::Arr(fields.iter().map(|f| J::Obj(vec![("name", J::s(f.ident.name.to_string())), ("e", self.expr(f.expr)), ("shorthand", J::Bool(f.is_shorthand))])).collect()),
                ));
                let b = match base {
                    hir::StructTailExpr::Base(b) => self.expr(b),
                    hir::StructTailExpr::DefaultFields(_) => J::s("default"),
                    _ => J::Null,
                };
                rest.push(("base", b));
                self.node("Struct", e, rest)
            }
            ExprKind::ConstBlock(c) => {
                let body = self.tcx.hir_body(c.body);
                self.node("ConstBlock", e, vec![("body", self.expr(body.value))])
            }
            _ => self.node("Other", e, vec![("dbg", J::s(format!("{:?}", std::mem::discriminant(&e.kind))))]),
        }
    }

    /// `for pat in iter { body }` desugars to
    /// `match IntoIterator::into_iter(iter) { mut it => loop { match Iterator::next(&mut it) { None => break, Some(pat) => body } } }`
    fn fold_for(&self, e: &Expr<'_>, scrut: &Expr<'_>, arms: &[hir::Arm<'_>]) -> Option<J> {
        let iter = match &scrut.kind {
            ExprKind::Call(_, [it]) => it,
            _ => return None,
        };
        let arm = arms.first()?;
        let lp = match &arm.body.kind {
            ExprKind::Loop(b, label, _, _) => (b, label),
            _ => return None,
        };
        let inner = match lp.0.expr.or_else(|| lp.0.stmts.first().and_then(|s| match s.kind { StmtKind::Expr(x) | StmtKind::Semi(x) => Some(x), _ => None })) {
            Some(x) => x,
            None => return None,
        };
        if let ExprKind::Match(_, inner_arms, _) = &inner.kind {
            for ia in inner_arms.iter() {
                let sub: Option<&Pat<'_>> = match &ia.pat.kind {
                    PatKind::TupleStruct(_, [p], _) => Some(p),
                    PatKind::Struct(_, [f], _) => Some(f.pat),
                    _ => None,
                };
                if let Some(p) = sub {
                    let label = lp.1.map_or(J::Null, |l| J::s(l.ident.name.to_string()));
                    return Some(self.node(
                        "For",
                        e,
                        vec![("label", label), ("pat", self.pat(p)), ("iter", self.expr(iter)), ("body", self.expr(ia.body))],
                    ));
                }
            }
        }
        None
    }
}
